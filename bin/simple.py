"""Simple-format reader stream (C15): generated / corrupted documents -> io::simple::read + check_data_consistency of the
implementation (vh simpleread) and the Coq model SimpleRead (CorrSimple.check_simple), plus the real binary on a sample."""
import copy
import json
import os
import random
from collections import Counter

import cde
import clirun
import faults
import vlib

BIT = {"agree": 1, "parsed": 2, "consistent": 4, "accepted": 8}


def run_list(d, cmd, lst, lp):
    """vh <cmd> --list: one process for all files; if that process dies (abort / allocation failure are not catchable panics) every file
    is run in a process of its own and a death is recorded as a panic of the library on that file"""
    rc, out, err, _ = vlib.run([vlib.VH, cmd, "--list", lp], timeout=600)
    if rc == 0:
        return json.loads(out)
    impl = []
    for i, item in enumerate(lst):
        one = os.path.join(d, "one_%s.json" % cmd)
        json.dump([item], open(one, "w"))
        rc1, out1, err1, _ = vlib.run([vlib.VH, cmd, "--list", one], timeout=120)
        try:
            impl.append(json.loads(out1)[0] if rc1 == 0 else {"panic": True, "process": "died", "stderr": err1[-200:]})
        except Exception:
            impl.append({"panic": True, "process": "no output"})
    return impl


def rich_doc(rng):
    """a valid document using optional fields, unknown keys, positional (array) forms of the structs"""
    n_c, n_p = rng.randint(1, 4), rng.randint(1, 6)
    courses = []
    for c in range(n_c):
        mx = rng.randint(0, 6)
        d = {"name": rng.choice(["C%d" % c, "Kurs %d ü" % c, ""]), "num_max": mx, "num_min": rng.randint(0, mx), "instructors": []}
        if rng.random() < .5:
            d["room_factor"] = rng.choice([1, 2, 1.5, 2.5, 0.5, 1.1, 0.3, 0, 3])
        if rng.random() < .4:
            d["room_offset"] = rng.choice([0, 1, 2.5, 12, 0.5, 7])
        if rng.random() < .4:
            d["fixed_course"] = rng.random() < .5
        if rng.random() < .3:
            d["hidden_participant_names"] = ["H%d é" % i for i in range(rng.randint(0, 3))]
        if rng.random() < .2:
            d["comment"] = {"unknown": [1, 2, None]}
        courses.append(d)
    parts = []
    for p in range(n_p):
        cs = list(range(n_c))
        rng.shuffle(cs)
        chs = [{"course": c, "penalty": rng.choice([i, i, 0, 7, 49999, 1000])} for i, c in enumerate(cs[:rng.randint(0, n_c)])]
        d = {"name": "P%d é" % p, "choices": chs}
        if rng.random() < .15:
            d["index"] = 99          # skipped fields are ignored like unknown keys
        parts.append(d)
    for c in courses:
        if rng.random() < .4:
            c["instructors"] = rng.sample(range(n_p), rng.randint(1, min(2, n_p)))
    doc = {"participants": parts, "courses": courses}
    if rng.random() < .5:
        doc["format"] = "X-coursedata-simple"
    return doc


def to_seq_forms(doc, rng):
    """rewrites some structs into serde's positional form"""
    d = copy.deepcopy(doc)
    for p in d["participants"]:
        for i, ch in enumerate(p["choices"]):
            if rng.random() < .5:
                p["choices"][i] = [ch["course"], ch["penalty"]] + ([0] if rng.random() < .1 else [])
    for i, p in enumerate(d["participants"]):
        if rng.random() < .4:
            d["participants"][i] = [p["name"], p["choices"]] + (["x"] if rng.random() < .1 else [])
    order = ["name", "num_max", "num_min", "instructors", "room_factor", "room_offset", "fixed_course", "hidden_participant_names"]
    dflt = {"room_factor": 1.0, "room_offset": 0.0, "fixed_course": False, "hidden_participant_names": []}
    for i, c in enumerate(d["courses"]):
        if rng.random() < .5:
            k = rng.randint(3, 9)
            arr = [c.get(f, dflt.get(f)) for f in order] + [None]
            d["courses"][i] = arr[:k]
    return d


def special_values(doc, rng):
    d = copy.deepcopy(doc)
    kind = rng.randrange(8)
    try:
        if kind == 0:
            rng.choice(rng.choice(d["participants"])["choices"])["penalty"] = rng.choice([4294967295, 4294967296, 50000, 49999, -0.0, 2 ** 64])
        elif kind == 1:
            rng.choice(d["courses"])["num_max"] = rng.choice([2 ** 64 - 1, 2 ** 64, 2 ** 63, 3.0, 1e3])
        elif kind == 2:
            rng.choice(d["courses"])["num_min"] = rng.choice([2 ** 64 - 1, 7, 100])
        elif kind == 3:
            rng.choice(d["courses"])["instructors"] = rng.choice([[len(d["participants"])], [0, 0], [2 ** 40], [-1], [0.0]])
        elif kind == 4:
            rng.choice(d["courses"])["room_factor"] = rng.choice([None, "1", True, 1e30, -2, 2 ** 70])
        elif kind == 5:
            rng.choice(d["courses"])["fixed_course"] = rng.choice([0, 1, "true", None])
        elif kind == 6:
            rng.choice(rng.choice(d["participants"])["choices"])["course"] = rng.choice([len(d["courses"]), len(d["courses"]) - 1, 2 ** 64 - 1])
        else:
            d[rng.choice(["participants", "courses"])] = rng.choice([{}, None, 3, "x", [[]], [3], [None], []])
    except (IndexError, KeyError, TypeError):
        pass
    return d


def documents(seed, count):
    rng = random.Random(seed)
    docs = []
    kinds = ["delete", "null", "string", "negative", "big_index", "float", "list", "object", "bool"]
    while len(docs) < count:
        base = rich_doc(rng) if rng.random() < .7 else faults.valid_simple_doc(rng)
        r = rng.random()
        if r < .25:
            docs.append(("valid", base))
        elif r < .45:
            docs.append(("seq", to_seq_forms(base, rng)))
        elif r < .65:
            docs.append(("special", special_values(base, rng)))
        else:
            d = to_seq_forms(base, rng) if rng.random() < .3 else base
            paths = faults.paths_in(d)
            try:
                docs.append(("corrupt", faults.mutate(d, rng.choice(paths), rng.choice(kinds), rng)))
            except Exception:
                continue
    for blob in ([], None, 3, "x", {}, {"participants": []}, {"courses": []}, {"participants": [], "courses": []},
                 {"participants": {}, "courses": []}, [{"participants": [], "courses": []}]):
        docs.append(("top", blob))
    return docs


def g_expected(e):
    if e is None or "err" in e or "panic" in e:
        return "None"
    ps = "[" + "; ".join("(%s, [%s])" % (cde.cstr(p["name"]), "; ".join("(%d%%Z, %d%%Z)" % (c, pen) for c, pen in p["choices"])) for p in e["participants"]) + "]"
    cs = "[" + "; ".join("(%s, %d%%Z, %d%%Z, [%s], %d%%Z, %d%%Z, %s, [%s])" % (
        cde.cstr(c["name"]), c["max"], c["min"], "; ".join("%d%%Z" % i for i in c["instr"]), c["fbits"], c["obits"],
        "true" if c["fixed"] else "false", "; ".join(cde.cstr(h) for h in c["hidden"])) for c in e["courses"]) + "]"
    return "(Some (%s, %s, %s))" % (ps, cs, "true" if e["consistent"] else "false")


def reader_cases(ctx, seed, count, binpath=None, bin_sample=60):
    d = os.path.join(ctx.work, "simple")
    os.makedirs(d, exist_ok=True)
    docs = documents(seed, count)
    lst = []
    for i, (kind, doc) in enumerate(docs):
        p = os.path.join(d, "doc_%05d.json" % i)
        with open(p, "w", encoding="utf-8") as f:
            json.dump(doc, f)
        lst.append({"file": p})
    lp = os.path.join(d, "list.json")
    json.dump(lst, open(lp, "w"))
    impl = run_list(d, "simpleread", lst, lp)
    texts = ["(%s, %s)" % (cde.coq(doc), g_expected(e)) for (kind, doc), e in zip(docs, impl)]
    codes = cde.eval_cases(ctx, "simple", "simple_case", "check_simple", texts,
                           header="Require Import Json SimpleRead CorrSimple.\nOpen Scope string_scope.\nOpen Scope list_scope.")
    recs = [{"kind": k, "doc": doc, "impl": e, "code": c, "file": l["file"]} for (k, doc), e, c, l in zip(docs, impl, codes, lst)]
    # the real binary on a sample: refused (65) exactly when the model does not accept the document; and on every document on which
    # model and implementation disagree (the search for a failing input when the correspondence breaks)
    if binpath:
        rng = random.Random(seed + 1)
        sample = set(rng.sample(range(len(recs)), min(bin_sample, len(recs))))
        sample |= set([i for i, r in enumerate(recs) if not (r["code"] & BIT["agree"])][:40])
        run_binary(d, recs, sorted(sample), binpath)
    return recs


def run_binary(d, recs, idxs, binpath):
    from concurrent.futures import ThreadPoolExecutor

    def work(i):
        outp = os.path.join(d, "out_%05d.json" % i)
        if os.path.exists(outp):
            os.remove(outp)
        r = clirun.run_bin(binpath, ["--num-threads", "1", recs[i]["file"], outp], timeout=120)
        return i, (1000 if r["timeout"] else r["rc"]), r["stderr"][-300:], os.path.exists(outp)
    with ThreadPoolExecutor(max_workers=16) as ex:
        for i, rc_, err_, ex_ in ex.map(work, idxs):
            recs[i]["bin"] = {"exit": rc_, "stderr": err_, "out_exists": ex_}


def classify(recs):
    """returns (violations [(what, rec)], disagreements [rec], stats)"""
    viol, dis = [], []
    st = Counter()
    for r in recs:
        c = r["code"]
        st["docs"] += 1
        st["kind:" + r["kind"]] += 1
        st["accepted" if c & BIT["accepted"] else ("parsed_inconsistent" if c & BIT["parsed"] else "refused_by_reader")] += 1
        if isinstance(r["impl"], dict) and "panic" in r["impl"]:
            viol.append(("C15: simple::read / check_data_consistency panics on a document", r))
            continue
        if not c & BIT["agree"]:
            dis.append(r)
        b = r.get("bin")
        if b:
            st["binary_runs"] += 1
            impl_courses = r["impl"].get("courses", []) if isinstance(r["impl"], dict) else []
            places_ok = not (c & BIT["accepted"]) or sum(x["max"] for x in impl_courses) < 5000
            if b["exit"] == 101 or b["exit"] is None or (b["exit"] or 0) >= 128 or "panicked" in b["stderr"]:
                viol.append(("C15: the program panics / aborts on an input document (exit %s; %s)" % (b["exit"], b["stderr"][-160:].replace("\n", " ")), r))
            elif b["exit"] == 1000:
                if places_ok:
                    viol.append(("C15: the program hangs on an input document", r))
                else:
                    st["resource_limit_skipped"] += 1
            elif not (c & BIT["accepted"]) and (b["exit"] != 65 or b["out_exists"]):
                viol.append(("C15: a document that is not a well-formed instance (SimpleRead.simple_accepts = false) is not refused with status 65 "
                             "(exit %s, output file %s)" % (b["exit"], "exists" if b["out_exists"] else "absent"), r))
            elif (c & BIT["agree"]) and (c & BIT["accepted"]) and b["exit"] not in (0, 1):
                viol.append(("C15/C10: a well-formed consistent document ends with exit status %s" % b["exit"], r))
    return viol, dis, st


# ---------------------------------------------------------------- rooms files and the --rooms option (C15)

def rooms_documents(seed, count):
    rng = random.Random(seed)
    docs = []
    kinds = ["delete", "null", "string", "negative", "big_index", "float", "list", "object", "bool"]
    while len(docs) < count:
        n = rng.randint(0, 5)
        base = [{"name": rng.choice(["Saal", "Raum %d ü" % i, ""]), "capacity": rng.choice([0, 1, 5, 5, 8, 12, 30]), "quantity": rng.choice([0, 1, 1, 2, 3, 7])}
                for i in range(n)]
        r = rng.random()
        if r < .3:
            docs.append(("valid", base))
        elif r < .45:
            d = copy.deepcopy(base)
            for i, k in enumerate(d):
                if rng.random() < .6:
                    d[i] = [k["name"], k["capacity"], k["quantity"]] + ([1] if rng.random() < .15 else [])
                elif rng.random() < .3:
                    k["extra"] = [None, 1]
            docs.append(("seq", d))
        elif r < .65 and base:
            d = copy.deepcopy(base)
            k = rng.choice(d)
            f = rng.choice(["capacity", "quantity"])
            k[f] = rng.choice([2 ** 64 - 1, 2 ** 64, 2 ** 63, 4000000000, 100000, 100001, 99999, 99993, -1, 2.0, "3"])
            docs.append(("special", d))
        else:
            paths = faults.paths_in(base)
            if not paths:
                docs.append(("valid", base))
                continue
            try:
                docs.append(("corrupt", faults.mutate(base, rng.choice(paths), rng.choice(kinds), rng)))
            except Exception:
                continue
    for blob in ([], {}, None, 3, "x", [[]], [None], [{}], {"name": "a", "capacity": 1, "quantity": 1}):
        docs.append(("top", blob))
    return docs


def rooms_strings(seed, count):
    rng = random.Random(seed)
    out = ["", ",", "1,", ",1", "1,,2", "+5", "+", "5,+6", " 5", "5 ", "5, 6", "0", "00", "007,8", "18446744073709551615", "18446744073709551616",
           "1.5", "a", "1,-2", "٣", "5;6", "1e3", "0x10", "9" * 25]
    while len(out) < count:
        n = rng.randint(1, 6)
        out.append(",".join(str(rng.choice([0, 1, 3, 8, 12, 25, 2 ** 32, 2 ** 64 - 1])) for _ in range(n)))
    return out[:max(count, 24)]


def rooms_cases(ctx, seed, count, binpath, goodfile, bin_sample=40):
    d = os.path.join(ctx.work, "simple")
    os.makedirs(d, exist_ok=True)
    docs = rooms_documents(seed, count)
    lst = []
    for i, (kind, doc) in enumerate(docs):
        p = os.path.join(d, "rooms_%05d.json" % i)
        with open(p, "w", encoding="utf-8") as f:
            json.dump(doc, f)
        lst.append({"file": p})
    lp = os.path.join(d, "rooms_list.json")
    json.dump(lst, open(lp, "w"))
    impl = run_list(d, "roomsread", lst, lp)

    def g_exp(e):
        if e is None or "err" in e or "panic" in e:
            return "None"
        return "(Some [" + "; ".join("(%s, %d%%Z, %d%%Z)" % (cde.cstr(n), c, q) for n, c, q in e["kinds"]) + "])"
    texts = ["(%s, %s)" % (cde.coq(doc), g_exp(e)) for (kind, doc), e in zip(docs, impl)]
    header = "Require Import Json SimpleRead CorrSimple.\nOpen Scope string_scope.\nOpen Scope list_scope."
    codes = cde.eval_cases(ctx, "roomsfile", "rooms_file_case", "check_rooms_file", texts, header=header)
    recs = [{"kind": k, "doc": doc, "impl": e, "code": c, "file": l["file"], "what": "rooms-file"} for (k, doc), e, c, l in zip(docs, impl, codes, lst)]
    strs = rooms_strings(seed + 2, 60)
    stexts = ["(%s, None)" % cde.cstr(s_) for s_ in strs]
    scodes = cde.eval_cases(ctx, "roomsopt", "rooms_opt_case", "check_rooms_opt", stexts, header=header)
    srecs = [{"kind": "option", "doc": s_, "impl": None, "code": c, "what": "rooms-option"} for s_, c in zip(strs, scodes)]
    # the binary: refused with 65 exactly when the model refuses (rooms file: sample + all disagreements; option strings: all)
    rng = random.Random(seed + 3)
    sample = set(rng.sample(range(len(recs)), min(bin_sample, len(recs)))) | set([i for i, r in enumerate(recs) if not (r["code"] & 1)][:40])
    from concurrent.futures import ThreadPoolExecutor

    def work(item):
        what, i = item
        if what == "file":
            args = ["--num-threads", "1", "--rooms-file", recs[i]["file"], goodfile]
        else:
            args = ["--num-threads", "1", "--rooms=" + srecs[i]["doc"], goodfile]
        r = clirun.run_bin(binpath, args, timeout=120)
        return what, i, (1000 if r["timeout"] else r["rc"]), r["stderr"][-300:]
    items = [("file", i) for i in sorted(sample)] + [("opt", i) for i in range(len(srecs))]
    with ThreadPoolExecutor(max_workers=16) as ex:
        for what, i, rc_, err_ in ex.map(work, items):
            (recs if what == "file" else srecs)[i]["bin"] = {"exit": rc_, "stderr": err_}
    return recs, srecs


def classify_rooms(recs, srecs):
    viol, dis = [], []
    st = Counter()
    for r in recs + srecs:
        c = r["code"]
        st["docs"] += 1
        st[r["what"] + (":accepted" if c & 2 else ":refused")] += 1
        if isinstance(r["impl"], dict) and "panic" in r["impl"]:
            viol.append(("C15: rooms::read panics on a rooms file", r))
            continue
        if r["what"] == "rooms-file" and not c & 1:
            dis.append(r)
        b = r.get("bin")
        if not b:
            continue
        st["binary_runs"] += 1
        if b["exit"] in (101, 1000, None) or (b["exit"] or 0) >= 128 or "panicked" in b["stderr"]:
            viol.append(("C15: the program panics / aborts / hangs on a %s (exit %s; %s)" % (r["what"], b["exit"], b["stderr"][-160:].replace("\n", " ")), r))
        elif not (c & 2) and b["exit"] != 65 and not (r["what"] == "rooms-option" and b["exit"] == 2 and str(r["doc"]).startswith("-")):
            viol.append(("C15: a %s the model refuses is not refused with status 65 (exit %s)" % (r["what"], b["exit"]), r))
        elif (c & 2) and b["exit"] not in (0, 1):
            viol.append(("C15: a well-formed %s ends with exit status %s" % (r["what"], b["exit"]), r))
    return viol, dis, st
