"""CLI-level machinery: runs the real cdecao binary (built from /repo's working tree) on generated instance files and turns what it
wrote (exit status, stderr, output file, --print listing) into Coq cases for CorrCli.check_cli."""
import glob
import json
import os
import re
import struct
import subprocess
import time
from concurrent.futures import ThreadPoolExecutor

import vlib

CLI = {"class": 1, "hard": 2, "score": 4, "housed": 8, "quality": 16, "array": 32, "listing": 64, "out": 128, "tc": 256}


def f32_bits(x):
    return struct.unpack("<I", struct.pack("<f", float(x)))[0]


def _limit_fsize(nbytes):
    """child set-up: files cannot grow beyond nbytes (a write crossing the limit is short, the next one fails with EFBIG); SIGXFSZ ignored"""
    def f():
        import resource
        import signal
        signal.signal(signal.SIGXFSZ, signal.SIG_IGN)
        resource.setrlimit(resource.RLIMIT_FSIZE, (nbytes, nbytes))
    return f


def run_bin(binpath, args, timeout=120, stdin=None, fsize=None, closed_stdout=False):
    t0 = time.time()
    if closed_stdout:
        # stdout is a pipe whose read end is already closed (the reader of `cdecao --print | head` is gone): every write fails with EPIPE
        rfd, wfd = os.pipe()
        os.close(rfd)
        try:
            p = subprocess.run([binpath] + [str(a) for a in args], stdout=wfd, stderr=subprocess.PIPE, timeout=timeout,
                               env={"RUST_LOG": "info", "PATH": os.environ.get("PATH", "")}, input=stdin,
                               preexec_fn=_limit_fsize(fsize) if fsize is not None else None)
            return {"rc": p.returncode, "stdout": "", "stderr": p.stderr.decode("utf-8", "replace"), "timeout": False, "wall": time.time() - t0}
        except subprocess.TimeoutExpired as ex:
            return {"rc": None, "stdout": "", "stderr": (ex.stderr or b"").decode("utf-8", "replace"), "timeout": True, "wall": time.time() - t0}
        finally:
            os.close(wfd)
    try:
        p = subprocess.run([binpath] + [str(a) for a in args], stdout=subprocess.PIPE, stderr=subprocess.PIPE, timeout=timeout,
                           env={"RUST_LOG": "info", "PATH": os.environ.get("PATH", "")}, input=stdin,
                           preexec_fn=_limit_fsize(fsize) if fsize is not None else None)
        return {"rc": p.returncode, "stdout": p.stdout.decode("utf-8", "replace"), "stderr": p.stderr.decode("utf-8", "replace"),
                "timeout": False, "wall": time.time() - t0}
    except subprocess.TimeoutExpired as ex:
        return {"rc": None, "stdout": (ex.stdout or b"").decode("utf-8", "replace"), "stderr": (ex.stderr or b"").decode("utf-8", "replace"),
                "timeout": True, "wall": time.time() - t0}


def gen_instances(ctx, seed, count, rooms_mode=2, max_c=6, max_p=9):
    """vh cligen: instance files + library-level solve (1 worker) whose history is validated in Coq; returns metas with 'lib_code'"""
    d = os.path.join(ctx.work, "cli")
    os.makedirs(d, exist_ok=True)
    for f in glob.glob(os.path.join(d, "*")):
        if os.path.isfile(f):
            os.remove(f)
    vlib.vh(["cligen", "--seed", seed, "--count", count, "--rooms", rooms_mode, "--max-c", max_c, "--max-p", max_p, "--out", d])
    codes = vlib.coqc_cases(os.path.join(d, "cases_clilib_00.v"))
    metas = json.load(open(os.path.join(d, "cases_clilib_00.json")))
    flat = [c for blk in codes for c in blk]
    for m, c in zip(metas, flat):
        m["lib_code"] = c
    # the files written by io::simple::write_input_data read back (reader model) as the instances: CorrCliFile.check_inst_file
    import cde
    texts = ["(%s, %s, %s)" % (m["g_courses"], m["g_parts"], cde.coq(json.load(open(m["file"], encoding="utf-8")))) for m in metas]
    p = os.path.join(d, "cases_clifile_00.v")
    with open(p, "w", encoding="utf-8") as f:
        f.write("From Coq Require Import List NArith ZArith String.\nImport ListNotations.\nRequire Import Json CorrNode CorrCliFile.\n"
                "Open Scope string_scope.\nOpen Scope list_scope.\n")
        f.write("Definition cases : list inst_file_case := [\n  " + ";\n  ".join(texts) + "\n].\nEval vm_compute in map check_inst_file cases.\n")
    fc = [c for blk in vlib.coqc_cases(p) for c in blk]
    for m, c in zip(metas, fc):
        m["file_code"] = c
    return d, metas


LIST_HEAD = re.compile(r"^===== (.*) =====$")


def parse_listing(stdout, meta):
    """returns [(count, [(participant index, flag)], hidden)] per course, or a string describing why it cannot be parsed"""
    marker = "The assignment is:\n"
    if marker not in stdout:
        return "no listing"
    body = stdout.split(marker, 1)[1]
    pidx = {n: i for i, n in enumerate(meta["pnames"])}
    blocks = []
    cur = None
    for line in body.split("\n"):
        m = LIST_HEAD.match(line)
        if m:
            cur = {"name": m.group(1), "count": None, "people": [], "hidden": 0, "in_hidden": False, "rooms": None}
            blocks.append(cur)
            continue
        if cur is None or line == "":
            continue
        m = re.match(r"^\((\d+) participants incl\. instructors\)$", line)
        if m:
            cur["count"] = int(m.group(1))
            continue
        m = re.match(r"^\(possible course rooms: (.*)\)$", line)
        if m:
            cur["rooms"] = m.group(1)
            continue
        if line == "further attendees (not optimized):":
            cur["in_hidden"] = True
            continue
        if line.startswith("- "):
            name = line[2:]
            if cur["in_hidden"]:
                cur["hidden"] += 1
                continue
            flag = False
            if name.endswith(" (instr)"):
                name, flag = name[:-8], True
            if name not in pidx:
                return "unknown participant name %r" % name
            cur["people"].append((pidx[name], flag))
            continue
        return "unparsable line %r" % line
    if [b["name"] for b in blocks] != meta["cnames"]:
        return "course headers %r differ from the input's course list" % [b["name"] for b in blocks]
    if any(b["count"] is None for b in blocks):
        return "missing count line"
    return [(b["count"], b["people"], b["hidden"]) for b in blocks], [b["rooms"] for b in blocks]


def g_optnat(o):
    return "None" if o is None else "(Some %d%%nat)" % o


def g_cli_case(meta, rooms, out, listing):
    hid = "[" + "; ".join("%d%%nat" % len(h) for h in meta["hidden"]) + "]"
    g_rooms = "None" if rooms is None else "(Some [" + "; ".join("%d%%nat" % r for r in rooms) + "])"
    if out is None:
        g_out = "None"
    else:
        a, s, qmax, qb, qmb = out
        g_out = "(Some ([" + "; ".join(g_optnat(x) for x in a) + "], %d%%Z, %d%%Z, (%d)%%Z, (%d)%%Z))" % (s, qmax, qb, qmb)
    if listing is None:
        g_l = "None"
    else:
        g_l = "(Some [" + "; ".join("(%d%%nat, [%s], %d%%nat)" % (n, "; ".join("(%d%%nat, %s)" % (p, "true" if f else "false") for p, f in people), h)
                                    for n, people, h in listing) + "])"
    return "(%s, %s, %s, %s, %s, %s)" % (meta["g_courses"], meta["g_parts"], hid, g_rooms, g_out, g_l)


def eval_cli_cases(ctx, texts, shards=8):
    d = os.path.join(ctx.work, "cli")
    paths = []
    chunks = [texts[i::shards] for i in range(shards)]
    for si, ch in enumerate(chunks):
        if not ch:
            continue
        p = os.path.join(d, "cases_cli_%02d.v" % si)
        with open(p, "w") as f:
            f.write("From Coq Require Import List NArith ZArith.\nImport ListNotations.\nRequire Import CorrCli.\nOpen Scope list_scope.\n")
            f.write("Definition cases : list cli_case := [\n  " + ";\n  ".join(ch) + "\n].\nEval vm_compute in map check_cli cases.\n")
        paths.append((si, p))
    res = vlib.run_shards([p for _, p in paths])
    codes = [None] * len(texts)
    for (si, _), blk in zip(paths, res):
        flat = [c for b in blk for c in b]
        idxs = list(range(si, len(texts), shards))
        if len(flat) != len(idxs):
            raise RuntimeError("cli case count mismatch")
        for i, c in zip(idxs, flat):
            codes[i] = c
    return codes


def g_doc_case(rec):
    """CorrDoc.simple_doc_case: instance and the whole output document"""
    import cde
    m = rec["meta"]
    return "(%s, %s, %s)" % (m["g_courses"], m["g_parts"], cde.coq(rec["out_doc"]))


def eval_doc_cases(ctx, texts, shards=8):
    d = os.path.join(ctx.work, "cli")
    paths = []
    for si in range(shards):
        ch = texts[si::shards]
        if not ch:
            continue
        p = os.path.join(d, "cases_clidoc_%02d.v" % si)
        with open(p, "w", encoding="utf-8") as f:
            f.write("From Coq Require Import List NArith ZArith String.\nImport ListNotations.\nRequire Import Json CorrNode CorrDoc.\n"
                    "Open Scope string_scope.\nOpen Scope list_scope.\n")
            f.write("Definition cases : list simple_doc_case := [\n  " + ";\n  ".join(ch) + "\n].\nEval vm_compute in map check_simple_doc cases.\n")
        paths.append((si, p))
    res = vlib.run_shards([p for _, p in paths])
    codes = [None] * len(texts)
    for (si, _), blk in zip(paths, res):
        flat = [c for b in blk for c in b]
        idxs = list(range(si, len(texts), shards))
        if len(flat) != len(idxs):
            raise RuntimeError("cli doc case count mismatch")
        for i, c in zip(idxs, flat):
            codes[i] = c
    return codes


def g_text_case(rec):
    """CorrCliText.text_case of a --print run: instance, input document, rooms argument, assignment of the output file, stdout"""
    import cde
    m = rec["meta"]
    ra = rec.get("rooms_arg")
    if ra is None:
        g_r = "(None, None)"
    elif ra[0] == "list":
        g_r = "(Some [" + "; ".join("%d%%nat" % r for r in ra[1]) + "], None)"
    else:
        g_r = "(None, Some [" + "; ".join("(%s, %d%%nat, %d%%nat)" % (cde.cstr(k["name"]), k["capacity"], k["quantity"]) for k in ra[1]) + "])"
    a = rec["out"][0]
    return "(%s, %s, %s, %s, [%s], %s)" % (m["g_courses"], m["g_parts"], cde.coq(json.load(open(m["file"], encoding="utf-8"))), g_r,
                                           "; ".join(g_optnat(x) for x in a), cde.cstr(rec["run"]["stdout"]))


def eval_text_cases(ctx, texts, shards=8):
    d = os.path.join(ctx.work, "cli")
    paths = []
    for si in range(shards):
        ch = texts[si::shards]
        if not ch:
            continue
        p = os.path.join(d, "cases_clitext_%02d.v" % si)
        with open(p, "w", encoding="utf-8") as f:
            f.write("From Coq Require Import List NArith ZArith String.\nImport ListNotations.\nRequire Import Json CorrNode CorrCliText.\n"
                    "Open Scope string_scope.\nOpen Scope list_scope.\n")
            f.write("Definition cases : list text_case := [\n  " + ";\n  ".join(ch) + "\n].\nEval vm_compute in map check_text cases.\n")
        paths.append((si, p))
    res = vlib.run_shards([p for _, p in paths])
    codes = [None] * len(texts)
    for (si, _), blk in zip(paths, res):
        flat = [c for b in blk for c in b]
        idxs = list(range(si, len(texts), shards))
        if len(flat) != len(idxs):
            raise RuntimeError("cli text case count mismatch")
        for i, c in zip(idxs, flat):
            codes[i] = c
    return codes


def wide_instance(r):
    """a larger instance without instructors (outside class TC): 5-7 small courses filled exactly by their own participants, 2-3 large ones,
    nearly enough large rooms and one or two tiny ones -- the room stage has to choose among many equally ranked courses (selection window
    MIN_K / MAX_N / MAX_NTOK of check_room_feasibility)"""
    ns, nb = r.randint(5, 7), r.randint(2, 3)
    m = r.randint(2, 4)
    courses, parts = [], []
    big = list(range(ns, ns + nb))
    for c in range(ns):
        mm = m if r.random() < 0.8 else r.randint(2, 4)
        courses.append({"name": "S%d" % c, "num_min": mm, "num_max": mm + (0 if r.random() < 0.7 else 1), "instructors": []})
        for i in range(mm):
            parts.append({"name": "s%d_%d" % (c, i), "choices": [{"course": c, "penalty": 0}, {"course": r.choice(big), "penalty": r.randint(2, 20)}]})
    for b in big:
        courses.append({"name": "B%d" % b, "num_min": 1, "num_max": r.randint(10, 14), "instructors": []})
        for i in range(r.randint(3, 6)):
            o = r.choice([x for x in big if x != b])
            parts.append({"name": "b%d_%d" % (b, i), "choices": [{"course": b, "penalty": 0}, {"course": o, "penalty": r.randint(1, 3)}]})
    nc = ns + nb
    rooms = [r.randint(12, 16) for _ in range(nc - r.randint(1, 2))] + [r.randint(1, m) for _ in range(r.randint(1, 2))]
    r.shuffle(rooms)
    return {"format": "X-coursedata-simple", "version": "1.0", "participants": parts, "courses": courses}, rooms


def run_wide_family(ctx, binpath, seed, count, threads=(1, 6, 16)):
    """runs the binary on `count` wide instances with each thread count; returns [(instance, rooms, {threads: (exit, score)})]"""
    import random
    from concurrent.futures import ThreadPoolExecutor
    d = os.path.join(ctx.work, "wide")
    os.makedirs(d, exist_ok=True)
    r = random.Random(seed)
    tasks = []
    for k in range(count):
        inst, rooms = wide_instance(r)
        f = os.path.join(d, "wide_%03d.json" % k)
        json.dump(inst, open(f, "w"))
        tasks.append((k, inst, rooms, f))

    def work(t):
        k, inst, rooms, f = t
        outs = {}
        for th in threads:
            o = os.path.join(d, "wide_out_%03d_%d.json" % (k, th))
            if os.path.exists(o):
                os.remove(o)
            run = run_bin(binpath, ["--num-threads", str(th), "--rooms", ",".join(map(str, rooms)), f, o])
            sc = None
            if run["rc"] == 0:
                try:
                    sc = json.load(open(o))["quality"]["solution_score"]
                except Exception:
                    sc = "unreadable output"
            outs[th] = (run["rc"], sc)
        return (inst, rooms, outs)

    with ThreadPoolExecutor(max_workers=8) as ex:
        return list(ex.map(work, tasks))


def run_roomsfile_pairs(ctx, binpath, seed, count):
    """C17 on the real binary: `count` wide instances, each run without rooms, with --rooms <nc rooms of a size no course can exceed> and with a
    --rooms-file describing the same rooms as kinds (one name for all, the kind given in two or three entries; entries of quantity 0 and
    different names in between).  Returns [(instance, kinds, {variant: (exit, score)})]"""
    import random
    from concurrent.futures import ThreadPoolExecutor
    d = os.path.join(ctx.work, "rfpairs")
    os.makedirs(d, exist_ok=True)
    r = random.Random(seed)
    tasks = []
    for k in range(count):
        inst, _ = wide_instance(r)
        if k % 3 == 2:
            # small instance, every course can take place
            nc = r.randint(2, 4)
            inst = {"format": "X-coursedata-simple", "version": "1.0",
                    "courses": [{"name": "K%d" % c, "num_min": 1, "num_max": 3, "instructors": []} for c in range(nc)],
                    "participants": [{"name": "t%d" % i, "choices": [{"course": i % nc, "penalty": 0}, {"course": (i + 1) % nc, "penalty": 1}]}
                                     for i in range(nc + r.randint(0, 3))]}
        nc = len(inst["courses"])
        cap = max(c["num_max"] + len(c["instructors"]) for c in inst["courses"]) + r.randint(0, 2)
        j = 1 + k % max(1, nc - 1)
        split = [j, nc - j] if k % 4 != 3 or nc < 3 else [1, 1, nc - 2]
        name = ["Raum", "Saal \u00df", "R"][k % 3]
        kinds = [{"name": name, "capacity": cap, "quantity": q} for q in split]
        if k % 2 == 1:
            kinds.insert(1, {"name": name, "capacity": cap, "quantity": 0})
        if k % 5 == 4:
            kinds.append({"name": "Kammer", "capacity": 1, "quantity": 0})
        f = os.path.join(d, "rf_%03d.json" % k)
        json.dump(inst, open(f, "w"))
        rf = os.path.join(d, "rf_%03d_rooms.json" % k)
        json.dump(kinds, open(rf, "w"))
        tasks.append((k, inst, kinds, f, rf, [cap] * nc))

    def work(t):
        k, inst, kinds, f, rf, sizes = t
        outs = {}
        for v, extra in (("none", []), ("rooms", ["--rooms", ",".join(map(str, sizes))]), ("rooms_file", ["--rooms-file", rf])):
            o = os.path.join(d, "rf_out_%03d_%s.json" % (k, v))
            if os.path.exists(o):
                os.remove(o)
            run = run_bin(binpath, ["--num-threads", "1"] + extra + [f, o])
            sc = None
            if run["rc"] == 0:
                try:
                    sc = json.load(open(o))["quality"]["solution_score"]
                except Exception:
                    sc = "unreadable output"
            outs[v] = (run["rc"], sc)
        return (inst, kinds, outs)

    with ThreadPoolExecutor(max_workers=8) as ex:
        return list(ex.map(work, tasks))


def large_instance(r):
    """a large instance: one plenary course with a minimum size above 100 (percentages and ranks computed from sizes of that magnitude differ
    from what small instances show), two or three small courses, 105-160 participants most of whom want the plenary first; no instructors
    with own choices (outside class TC)"""
    mn = r.randint(101, 130)
    mx = mn + r.randint(0, 30)
    nsmall = r.randint(2, 3)
    courses = [{"name": "Plenum", "num_min": mn, "num_max": mx, "instructors": [], "fixed_course": r.random() < 0.2}]
    for k in range(nsmall):
        lo = r.randint(0, 4)
        courses.append({"name": "Klein %d" % k, "num_min": lo, "num_max": lo + r.randint(2, 12), "instructors": []})
    # the number of people who want the plenary is close to its minimum: just below, at, or above
    want = mn + r.choice([-3, -2, -1, -1, 0, 1, 2, 5])
    others = r.randint(3, 20)
    parts = []
    for i in range(want):
        alt = r.sample(range(1, nsmall + 1), r.randint(0, min(2, nsmall)))
        parts.append({"name": "P%03d" % i, "choices": [{"course": 0, "penalty": 0}] + [{"course": c, "penalty": k + 1} for k, c in enumerate(alt)]})
    for i in range(others):
        cs = r.sample(range(1, nsmall + 1), r.randint(1, nsmall))
        if r.random() < 0.5:
            cs.append(0)
        parts.append({"name": "Q%03d" % i, "choices": [{"course": c, "penalty": k} for k, c in enumerate(cs)]})
    if r.random() < 0.5:
        # an instructor without choices for one small course
        courses[1]["instructors"] = [len(parts)]
        parts.append({"name": "Leitung", "choices": []})
    r.shuffle(parts)
    # instructor indices after the shuffle
    for c in courses:
        c["instructors"] = [i for i, p in enumerate(parts) if p["name"] == "Leitung"] if c["instructors"] else []
    return {"format": "X-coursedata-simple", "version": "1.0", "participants": parts, "courses": courses}


def g_inst_terms(inst):
    """(g_courses, g_parts) : the Gallina terms CorrCli.cli_case expects, from a simple-format document (factor 1, offset 0)"""
    gc = "[" + "; ".join("(%d%%nat, %d%%nat, [%s], %s, 1065353216%%Z, 0%%Z)" % (c["num_min"], c["num_max"], "; ".join("%d%%nat" % i for i in c.get("instructors", [])),
                                                                              "true" if c.get("fixed_course") else "false") for c in inst["courses"]) + "]"
    gp = "[" + "; ".join("[" + "; ".join("(%d%%nat, %d%%Z)" % (ch["course"], ch["penalty"]) for ch in p["choices"]) + "]" for p in inst["participants"]) + "]"
    return gc, gp


def run_large_family(ctx, binpath, seed, count, threads=(1, 3)):
    """runs the binary on `count` large instances; the output files are judged by CorrCli.check_cli (hard constraints, score, quality, array)"""
    import random
    d = os.path.join(ctx.work, "cli")
    os.makedirs(d, exist_ok=True)
    r = random.Random(seed)
    recs, texts = [], []
    for k in range(count):
        inst = large_instance(r)
        f = os.path.join(d, "large_%03d.json" % k)
        json.dump(inst, open(f, "w"))
        gc, gp = g_inst_terms(inst)
        meta = {"g_courses": gc, "g_parts": gp, "hidden": [[] for _ in inst["courses"]]}
        for th in threads:
            o = os.path.join(d, "large_out_%03d_%d.json" % (k, th))
            if os.path.exists(o):
                os.remove(o)
            run = run_bin(binpath, ["--num-threads", str(th), f, o], timeout=300)
            out = parse_output_file(o) if os.path.exists(o) else None
            recs.append({"inst": inst, "file": f, "threads": th, "run": run, "out": out})
            texts.append(g_cli_case(meta, None, out if isinstance(out, tuple) else None, None))
    codes = eval_cli_cases(ctx, texts)
    for rec, c in zip(recs, codes):
        rec["code"] = c
    return recs


def parse_output_file(path):
    """returns (assignment, score, qmax, qbits, qmaxbits) or a string (why it is not a well-formed simple-format output)"""
    try:
        d = json.load(open(path, encoding="utf-8"))
    except Exception as e:
        return "output file does not parse as JSON: %s" % e
    if not isinstance(d, dict) or set(d.keys()) != {"format", "version", "assignment", "quality"}:
        return "output keys %r" % (sorted(d.keys()) if isinstance(d, dict) else type(d))
    if d["format"] != "X-courseassignment-simple" or d["version"] != "1.1":
        return "format/version %r %r" % (d["format"], d["version"])
    a = d["assignment"]
    if not isinstance(a, list) or any(not (x is None or (isinstance(x, int) and not isinstance(x, bool) and x >= 0)) for x in a):
        return "assignment is not an array of null / non-negative integers"
    q = d["quality"]
    try:
        fb = lambda x: -1 if x is None else f32_bits(x)      # NaN is written as null (instances without any participant with choices)
        return (a, int(q["solution_score"]), int(q["theoretical_max_score"]), fb(q["solution_quality"]), fb(q["theoretical_max_quality"]))
    except Exception as e:
        return "quality object malformed: %s" % e


def run_cli_matrix(ctx, binpath, metas, variants, jobs=16):
    """variants: list of dict(threads=int, rooms='list'|'file'|None (use instance's rooms), print=bool, out=bool).
    Returns list of records {meta, variant, run, out(parsed or str or None), listing}"""
    d = os.path.join(ctx.work, "cli")
    tasks = []
    for m in metas:
        rooms = m["inst"]["rooms"]
        for vi, v in enumerate(variants):
            args = ["--num-threads", v["threads"]]
            rooms_arg = None
            use_rooms = rooms is not None and v.get("rooms") is not None
            if use_rooms and v["rooms"] == "list":
                if not rooms:
                    continue          # an empty --rooms string is a parse error, not a valid room list
                args += ["--rooms", ",".join(str(r) for r in rooms)]
                rooms_arg = ("list", list(rooms))
            elif use_rooms and v["rooms"] == "file":
                rf = os.path.join(d, "rooms_%04d.json" % m["id"])
                kinds = {}
                for r in rooms:
                    kinds[r] = kinds.get(r, 0) + 1
                # one kind per capacity; on every other instance a capacity with several rooms is split into two kinds, a kind without
                # rooms is added, the file order is not the capacity order and a name is not ASCII
                klist = []
                fancy = m["id"] % 2 == 1
                for cap, q in sorted(kinds.items(), reverse=(m["id"] % 4 == 3)):
                    if fancy and q >= 2:
                        klist.append({"name": "R%da" % cap, "capacity": cap, "quantity": 1})
                        klist.append({"name": "Saal %d\u00df" % cap, "capacity": cap, "quantity": q - 1})
                    else:
                        klist.append({"name": "R%d" % cap, "capacity": cap, "quantity": q})
                    if fancy and cap % 3 == 0:
                        klist.append({"name": "leer%d" % cap, "capacity": cap, "quantity": 0})
                if m["id"] % 5 == 4:
                    # namesakes: every kind is called "Raum" (the same name for different capacities), and a capacity with several rooms is given
                    # by TWO entries of the same name and capacity -- a rooms file is a list, nothing forbids repeated entries
                    klist = []
                    for cap, q in sorted(kinds.items(), reverse=(m["id"] % 2 == 0)):
                        if q >= 2:
                            klist.append({"name": "Raum", "capacity": cap, "quantity": 1})
                            klist.append({"name": "Raum", "capacity": cap, "quantity": q - 1})
                        else:
                            klist.append({"name": "Raum", "capacity": cap, "quantity": q})
                json.dump(klist, open(rf, "w"))
                rooms_arg = ("file", klist)
                args += ["--rooms-file", rf]
            elif rooms is not None:
                continue              # instances generated with rooms are only run with their rooms
            if v.get("print"):
                args.append("--print")
            if v.get("report"):
                args.append("--report-no-solution")
            outp = None
            args.append(m["file"])
            if v.get("out", True):
                outp = os.path.join(d, "out_%04d_%d.json" % (m["id"], vi))
                if os.path.exists(outp):
                    os.remove(outp)
                if v.get("stale_out"):
                    # the output path already holds a (longer) result of an earlier run
                    with open(outp, "w") as f:
                        json.dump({"format": "X-courseassignment-simple", "version": "1.1", "assignment": [None] * 400,
                                   "quality": {"solution_score": 1, "theoretical_max_score": 1, "solution_quality": 0.0, "theoretical_max_quality": 0.0}}, f)
                args.append(outp)
            tasks.append((m, v, args, outp, rooms_arg))

    def work(t):
        m, v, args, outp, rooms_arg = t
        r = run_bin(binpath, args)
        rec = {"meta": m, "variant": v, "args": [str(a) for a in args], "run": r, "outpath": outp, "out": None, "listing": None, "rooms_shown": None,
               "rooms_arg": rooms_arg}
        if outp and os.path.exists(outp):
            rec["out"] = parse_output_file(outp)
            try:
                rec["out_doc"] = json.load(open(outp, encoding="utf-8"))
            except Exception:
                rec["out_doc"] = None
        if v.get("print") and r["rc"] == 0:
            pl = parse_listing(r["stdout"], m)
            if isinstance(pl, str):
                rec["listing"] = pl
            else:
                rec["listing"], rec["rooms_shown"] = pl
        return rec

    with ThreadPoolExecutor(max_workers=jobs) as ex:
        return list(ex.map(work, tasks))
