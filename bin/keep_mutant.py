#!/usr/bin/env python3
"""keep_mutant.py <PROP> <a|b> <caught-by> <needs> : copies a confirmed seeded change into /verif/seeded/<PROP>-<x>/"""
import json, os, shutil, sys, glob
P, X, caught, needs = sys.argv[1:5]
ran = sys.argv[5] if len(sys.argv) > 5 else ""
src = "/tmp/mut/%s/_out" % P
dst = "/verif/seeded/%s-%s" % (P, X)
os.makedirs(dst, exist_ok=True)
shutil.copy(os.path.join(src, "patch_%s.diff" % X), os.path.join(dst, "patch.diff"))
for f in glob.glob(os.path.join(src, "demo_%s*" % X)):
    shutil.copy(f, dst)
notes = os.path.join(src, "notes.md")
if os.path.exists(notes):
    shutil.copy(notes, os.path.join(dst, "notes_from_author.md"))
json.dump({"property": P, "mutant": X, "needs_to_manifest": needs, "caught_by": caught,
           "confirmed": "bin/confirm_mutant.sh %s %s in the scratch worktree /tmp/mut/%s: stock suite 35 passed with the patch; demonstration "
                        "passes on HEAD and fails with the patch. %s" % (P, X, P, ran),
           "how_to_run_check": "git -C /repo apply /verif/seeded/%s-%s/patch.diff && python3 /verif/bin/check.py <id>; git -C /repo checkout -- ." % (P, X)},
          open(os.path.join(dst, "meta.json"), "w"), indent=1)
print("kept", dst)
