#!/bin/bash
# usage: confirm_mutant.sh <PROP> <a|b> [extra cargo test args]
# In the scratch worktree /tmp/mut/<PROP>: confirms that the stock suite passes with the patch, that the demonstration
# (Rust integration test _out/demo_<x>.rs, python script _out/demo_<x>.py or shell script _out/demo_<x>.sh) fails with the patch
# and passes without it.
P="$1"; X="$2"; WT=/tmp/mut/$P; OUT=$WT/_out
cd $WT || exit 2
git checkout -q -- . ; rm -rf tests/demo_*.rs
run_demo() {
  if [ -f $OUT/demo_$X.rs ]; then mkdir -p tests; cp $OUT/demo_$X.rs tests/; timeout 900 cargo test --offline --features verif --test demo_$X 2>&1 | grep -E "^test result|panicked|FAILED|error(\[|:)" | head -5; return ${PIPESTATUS[0]};
  elif [ -f $OUT/demo_$X.py ]; then cargo build --offline -q 2>/dev/null; timeout 900 python3 $OUT/demo_$X.py > /tmp/mut/demo_$P$X.log 2>&1; rc=$?; tail -3 /tmp/mut/demo_$P$X.log; return $rc;
  elif [ -f $OUT/demo_$X.sh ]; then cargo build --offline -q 2>/dev/null; timeout 900 bash $OUT/demo_$X.sh > /tmp/mut/demo_$P$X.log 2>&1; rc=$?; tail -3 /tmp/mut/demo_$P$X.log; return $rc;
  else echo "no demo file"; return 99; fi
}
echo "--- HEAD: demo"; run_demo; head_rc=$?
git apply $OUT/patch_$X.diff || { echo "patch does not apply"; exit 2; }
echo "--- mutant: stock suite"; rm -rf tests/demo_*.rs; cargo test --offline 2>&1 | grep -E "^test result" | head -1
echo "--- mutant: demo"; run_demo; mut_rc=$?
git checkout -q -- . ; rm -rf tests/demo_*.rs; rmdir tests 2>/dev/null
echo "RESULT $P-$X head_rc=$head_rc mutant_rc=$mut_rc"
