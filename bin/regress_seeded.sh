#!/bin/bash
# usage: regress_seeded.sh [jobs] [pattern]   re-runs every kept seeded change (seeded/<id>-<x>/patch.diff) against the quick check of its
# property in private copies (try_mutant_iso.sh), <jobs> at a time; prints one line per change: CAUGHT / MISSED.
jobs=${1:-4}; pat=${2:-C}
out=/tmp/regress_seeded; mkdir -p $out
ls -d /verif/seeded/${pat}* | xargs -P $jobs -I{} bash -c 'd={}; n=$(basename $d); p=${n%%-*}; bash /verif/bin/try_mutant_iso.sh r_$n $d/patch.diff $p > '$out'/$n.log 2>&1; if grep -q "patch does not apply" '$out'/$n.log; then echo "STALE $n (patch does not apply to HEAD)"; elif grep -q "^VIOLATION" '$out'/$n.log; then echo "CAUGHT $n $(grep -c no-failing-input-found '$out'/$n.log)"; else echo "MISSED $n"; fi'
