"""C15 / C16 scenarios on the real binary: malformed inputs and output faults.  Each scenario yields the stage flags of Cli.stages
(predicted by construction or through `vh probe`), the observed exit status and the state of the output file; Coq's CorrExit.check_exit
compares them with Cli.exit_code."""
import copy
import json
import os
import random
import subprocess

import clirun
import vlib

EXIT = {"same": 1, "c16": 2, "c15": 4, "nofile": 8, "wf": 16}
FLAGS = ["args_ok", "track_ok", "rooms_both", "rooms_open_ok", "rooms_parse_ok", "input_open_ok", "input_parse_ok", "consistent",
         "has_participants", "found", "out_requested", "create_ok", "write_ok"]
TESTRES = os.path.join(vlib.REPO, "src", "io", "test_ressources")


def default_flags():
    f = {k: True for k in FLAGS}
    f["rooms_both"] = False
    return f


def probe(args):
    rc, out, err, _ = vlib.run([vlib.VH, "probe"] + [str(a) for a in args], timeout=120)
    try:
        return json.loads(out.strip().split("\n")[-1])
    except Exception:
        return {"probe_failed": (out + err)[-300:]}


def file_state(path, cde):
    if not path or not os.path.isfile(path):
        return False
    try:
        d = json.load(open(path, encoding="utf-8"))
    except Exception:
        return False
    if cde:
        return isinstance(d, dict) and d.get("kind") == "partial" and "registrations" in d and "courses" in d
    return isinstance(d, dict) and d.get("format") == "X-courseassignment-simple" and isinstance(d.get("assignment"), list)


def valid_simple_doc(rng, n_p=6, n_c=3):
    courses = [{"name": "C%d ü" % c, "num_min": rng.randint(0, 2), "num_max": rng.randint(3, 6), "instructors": [], "room_factor": 1.0,
                "room_offset": 0.0, "fixed_course": False, "hidden_participant_names": []} for c in range(n_c)]
    courses[0]["instructors"] = [0]
    parts = []
    for p in range(n_p):
        cs = list(range(n_c))
        rng.shuffle(cs)
        parts.append({"name": "P%d é" % p, "choices": [{"course": c, "penalty": i} for i, c in enumerate(cs[:rng.randint(1, n_c)])]})
    return {"format": "X-coursedata-simple", "version": "1.0", "participants": parts, "courses": courses}


def paths_in(doc, prefix=()):
    out = []
    if isinstance(doc, dict):
        for k, v in doc.items():
            out.append(prefix + (k,))
            out += paths_in(v, prefix + (k,))
    elif isinstance(doc, list):
        for i, v in enumerate(doc):
            out.append(prefix + (i,))
            out += paths_in(v, prefix + (i,))
    return out


def _get(doc, path):
    cur = doc
    for k in path:
        cur = cur[k]
    return cur


def mutate(doc, path, kind, rng):
    d = copy.deepcopy(doc)
    cur = d
    for k in path[:-1]:
        cur = cur[k]
    last = path[-1]
    if kind == "delete":
        if isinstance(cur, list):
            cur.pop(last)
        else:
            del cur[last]
    elif kind == "null":
        cur[last] = None
    elif kind == "string":
        cur[last] = "x"
    elif kind == "negative":
        cur[last] = -1
    elif kind == "big_index":
        cur[last] = rng.choice([3, 4, 5, 6, 7, 99, 4000000000])
    elif kind == "float":
        cur[last] = 1.5
    elif kind == "list":
        cur[last] = []
    elif kind == "object":
        cur[last] = {}
    elif kind == "bool":
        cur[last] = True
    elif kind == "long_unicode":
        cur[last] = "x" * rng.randrange(0, 4) + rng.choice(["Kursschiene am Nachmittag \u2013 Arbeitsgemeinschaften (Zweite H\u00e4lfte der Akademie) \U0001F600",
                                                          "\u00e4\u00f6\u00fc\u20ac" * 30, "\U0001F600" * 25, "a" * 59 + "\u00e9" * 10])
    return d


def cde_mistyped_fields(doc):
    """names of the optional integer fields of a CdE export that are present with a value that is neither null nor a non-negative integer
    (the reader treats them as absent: known finding D17)"""
    def bad(v):
        return v is not None and not (isinstance(v, int) and not isinstance(v, bool) and 0 <= v < 2 ** 64)
    found = set()
    try:
        for c in (doc.get("courses") or {}).values():
            if isinstance(c, dict):
                for k in ("max_size", "min_size"):
                    if k in c and bad(c[k]):
                        found.add(k)
        for reg in (doc.get("registrations") or {}).values():
            trs = reg.get("tracks") if isinstance(reg, dict) else None
            for td in (trs.values() if isinstance(trs, dict) else []):
                if isinstance(td, dict):
                    for k in ("course_id", "course_instructor"):
                        if k in td and bad(td[k]):
                            found.add(k)
        parts = ((doc.get("event") or {}).get("parts") or {}) if isinstance(doc.get("event"), dict) else {}
        for part in (parts.values() if isinstance(parts, dict) else []):
            trs = part.get("tracks") if isinstance(part, dict) else None
            for td in (trs.values() if isinstance(trs, dict) else []):
                if isinstance(td, dict) and "num_choices" in td and bad(td["num_choices"]):
                    found.add("num_choices")
    except Exception:
        return []
    return sorted(found)


def scenarios_c15(ctx, binpath, count):
    """list of (label, args, flags or None (to be probed), out path)"""
    d = os.path.join(ctx.work, "faults")
    os.makedirs(d, exist_ok=True)
    rng = random.Random(ctx.seed)
    sc = []

    def w(name, content, binary=False):
        p = os.path.join(d, name)
        with open(p, "wb" if binary else "w", **({} if binary else {"encoding": "utf-8"})) as f:
            f.write(content)
        return p

    good = valid_simple_doc(rng)
    goodp = w("good.json", json.dumps(good))
    n = 0
    # (a) single-field corruptions of a valid simple document (flags by probing the library)
    paths = paths_in(good)
    kinds = ["delete", "null", "string", "negative", "big_index", "float", "list", "object", "bool"]
    picks = [(p, k) for p in paths for k in kinds]
    rng.shuffle(picks)
    for p, k in picks[:count]:
        try:
            doc = mutate(good, p, k, rng)
        except Exception:
            continue
        fp = w("s_%04d.json" % n, json.dumps(doc))
        n += 1
        sc.append(("simple:%s:%s" % (k, "/".join(map(str, p))), ["--num-threads", "1", fp], None, {"file": fp}))
    # (a') penalties that do not fit the score arithmetic (>= WEIGHT_OFFSET 50000; >= 2^31 wraps in the cast): inconsistent data
    pen_paths = [q for q in paths if len(q) == 5 and q[0] == "participants" and q[-1] == "penalty"]
    for i, v in enumerate([50000, 50001, 60000, 2147483648, 4000000000, 4294967295]):
        if not pen_paths:
            break
        doc = copy.deepcopy(good)
        q = pen_paths[(i * 7) % len(pen_paths)]
        cur = doc
        for k in q[:-1]:
            cur = cur[k]
        cur[q[-1]] = v
        fp = w("pen_%d.json" % i, json.dumps(doc))
        sc.append(("simple:penalty=%d:%s" % (v, "/".join(map(str, q))), ["--num-threads", "1", fp], dict(default_flags(), consistent=False), {"file": fp}))
    # (b) byte-level damage
    raw = json.dumps(good).encode()
    for i in range(12):
        cut = rng.randrange(1, len(raw))
        fp = w("t_%02d.json" % i, raw[:cut], binary=True)
        sc.append(("simple:truncated@%d" % cut, ["--num-threads", "1", fp], None, {"file": fp}))
    for i, blob in enumerate([b"", b"\xff\xfe\x00", b"[]", b"null", b"{}", b"{\"participants\": [], \"courses\": []}", b"\"text\"", b"123"]):
        fp = w("g_%02d.json" % i, blob, binary=True)
        sc.append(("simple:garbage%d" % i, ["--num-threads", "1", fp], None, {"file": fp}))
    # (b') degenerate but well-formed documents: nothing to optimise, nothing to choose from, only instructors, only courses without places
    P = lambda name, ch: {"name": name, "choices": [{"course": c, "penalty": k} for k, c in enumerate(ch)]}
    C = lambda name, lo, hi, ins=(), fixed=False: {"name": name, "num_min": lo, "num_max": hi, "instructors": list(ins), "fixed_course": fixed}
    degenerate = [
        ("no-courses-one-choiceless", [P("a", [])], []),
        ("no-courses-three-choiceless", [P("a", []), P("b", []), P("c", [])], []),
        ("no-courses-no-participants", [], []),
        ("courses-but-no-participants", [], [C("k", 0, 3)]),
        ("only-choiceless", [P("a", []), P("b", [])], [C("k", 0, 3), C("l", 1, 2)]),
        ("only-instructors-without-choices", [P("a", []), P("b", [])], [C("k", 0, 3, [0]), C("l", 0, 2, [1])]),
        ("one-instructor-only-fixed-course", [P("a", [])], [C("k", 0, 0, [0], True)]),
        ("all-courses-without-places", [P("a", [0]), P("b", [1, 0])], [C("k", 0, 0), C("l", 0, 0)]),
        ("single-participant-single-course", [P("a", [0])], [C("k", 0, 1)]),
        ("minimum-never-reached", [P("a", [0])], [C("k", 5, 9)]),
        ("fixed-course-nobody-wants", [P("a", [1])], [C("k", 2, 3, (), True), C("l", 0, 3)]),
        ("many-courses-one-participant", [P("a", [7])], [C("k%d" % i, 0, 2) for i in range(12)]),
    ]
    # (b'') further explicit documents: names of every length with multi-byte characters, a participant listed twice as instructor of one
    # course / of two courses, top-level tags (format / version) with odd values -- the simple reader ignores the tags
    long_names = [("\u00e4" * k) + "x" for k in (1, 9, 10, 11, 29, 30, 31, 40, 100)]
    explicit = [
        ("long-names", [P(nm, [0]) for nm in long_names], [C(long_names[-1] + long_names[3], 0, 20), C("\U0001F600" * 12, 0, 3)]),
        ("dup-instructor-in-one-course", [P("a", [0]), P("b", [1]), P("c", [])], [C("k", 0, 3, [2, 2]), C("l", 0, 3)]),
        ("dup-instructor-in-two-courses", [P("a", [0]), P("b", [1]), P("c", [])], [C("k", 0, 3, [2]), C("l", 0, 3, [2])]),
        ("dup-instructor-with-choices", [P("a", [0]), P("b", [1, 0])], [C("k", 0, 3, [1, 0, 1]), C("l", 0, 3)]),
    ]
    for name, ps, cs in explicit:
        fp = w("exp_%s.json" % name, json.dumps({"format": "X-coursedata-simple", "version": "1.0", "participants": ps, "courses": cs}, ensure_ascii=False))
        for extra in ([], ["--print"]):
            sc.append(("simple:explicit:%s%s" % (name, "+print" if extra else ""), ["--num-threads", "1"] + extra + [fp], None, {"file": fp}))
    for k, (fmt, ver) in enumerate([("X-coursedata-simple", "1"), ("X-coursedata-simple", "01"), ("X-coursedata-simple", "2.0"), ("X-coursedata-simple", ""),
                                    ("X-coursedata-simple", 1), ("X-coursedata-simple", None), ("something-else", "1.0"), (None, "1.0.0"), (7, "x.y"),
                                    ("X-coursedata-simple", "1."), ("X-coursedata-simple", ".0")]):
        doc = copy.deepcopy(good)
        doc["format"], doc["version"] = fmt, ver
        if k % 3 == 2:
            del doc["format"]
        fp = w("tag_%02d.json" % k, json.dumps(doc))
        sc.append(("simple:tags:%r/%r" % (fmt, ver), ["--num-threads", "1", fp], None, {"file": fp}))
    for name, ps, cs in degenerate:
        fp = w("deg_%s.json" % name, json.dumps({"format": "X-coursedata-simple", "version": "1.0", "participants": ps, "courses": cs}))
        for extra in ([], ["--num-threads", "4"], ["--print"], ["--rooms", "3,2"]):
            sc.append(("simple:degenerate:%s%s" % (name, ("+" + extra[0].strip("-")) if extra else ""), (["--num-threads", "1"] if not extra or extra[0] != "--num-threads" else []) + extra + [fp],
                       None, {"file": fp}))
    # (c) options
    fl = default_flags()
    for rooms in ["", "3,x", "-1", "1,,2", "2.5", "a", "1,-2"]:
        # a value starting with '-' is rejected by clap itself (taken for an option)
        f2 = dict(fl, args_ok=False) if rooms.startswith("-") else dict(fl, rooms_parse_ok=False)
        sc.append(("rooms:%r" % rooms, ["--num-threads", "1", "--rooms", rooms, goodp], f2, {}))
    for i, blob in enumerate(["{}", "[{\"name\": \"a\"}]", "[{\"name\": 1, \"capacity\": 2, \"quantity\": 1}]", "[{\"name\": \"a\", \"capacity\": -2, \"quantity\": 1}]", "nonsense",
                              "[{\"name\": \"a\", \"capacity\": \"2\", \"quantity\": 1}]"]):
        rp = w("rooms_%d.json" % i, blob)
        sc.append(("rooms-file:%d" % i, ["--num-threads", "1", "--rooms-file", rp, goodp], dict(fl, rooms_parse_ok=False), {}))
    sc.append(("rooms-file:missing", ["--num-threads", "1", "--rooms-file", os.path.join(d, "nope.json"), goodp], dict(fl, rooms_open_ok=False), {}))
    okrooms = w("rooms_ok.json", json.dumps([{"name": "a", "capacity": 9, "quantity": 5}]))
    sc.append(("rooms:both", ["--num-threads", "1", "--rooms", "9,9,9", "--rooms-file", okrooms, goodp], dict(fl, rooms_both=True), {}))
    for t in ["0", "-1", "x", "", "1.5", "99999999999"]:
        sc.append(("threads:%r" % t, ["--num-threads", t, goodp], dict(fl, args_ok=False), {}))
    # every thread count >= 1 is a valid option value (C10 / C03 quantify over all of them): absurd ones must not crash the program
    for t in ["40000", "4000000000"]:
        sc.append(("threads:huge=%s" % t, ["--num-threads", t, goodp], None, {"file": goodp}))
    sc.append(("input:missing", ["--num-threads", "1", os.path.join(d, "missing.json")], dict(fl, input_open_ok=False), {}))
    sc.append(("input:directory", ["--num-threads", "1", d], None, {"file": d}))
    sc.append(("args:none", [], dict(fl, args_ok=False), {}))
    sc.append(("args:unknown-option", ["--frobnicate", goodp], dict(fl, args_ok=False), {}))
    # (d) CdE exports
    for res, track in (("TestAka_partial_export_event.json", "3"), ("cyta_partial_export_event.json", None)):
        src = os.path.join(TESTRES, res)
        doc = json.load(open(src, encoding="utf-8"))
        base = ["--cde", "--num-threads", "1"] + (["--track", track] if track else [])
        sc.append(("cde:%s:valid" % res[:4], base + [src], None, {"file": src, "cde": True, "track": track}))
        if track:
            sc.append(("cde:no-track-given", ["--cde", "--num-threads", "1", src], None, {"file": src, "cde": True, "track": None}))
            sc.append(("cde:unknown-track", ["--cde", "--num-threads", "1", "--track", "999", src], dict(fl, input_parse_ok=False), {}))
            sc.append(("cde:track-not-a-number", ["--cde", "--num-threads", "1", "--track", "abc", src], dict(fl, track_ok=False), {}))
        # a track id that does not occur in the export is refused -- also when the event has a single track (flags by construction)
        known = set()
        for part in doc["event"]["parts"].values():
            known |= set(part.get("tracks", {}).keys())
        for bad in ["999", "0"] + [pid for pid in doc["event"]["parts"].keys() if pid not in known][:1]:
            if bad not in known:
                sc.append(("cde:%s:unknown-track=%s" % (res[:4], bad), ["--cde", "--num-threads", "1", "--track", bad, src],
                           dict(fl, input_parse_ok=False), {}))
        tops = [("kind",), ("EVENT_SCHEMA_VERSION",), ("event",), ("courses",), ("registrations",), ("id",), ("timestamp",)]
        ps = [p for p in paths_in(doc) if len(p) <= 6]
        rng.shuffle(ps)
        chosen = [p for p in tops if p[0] in doc] + ps[:max(10, count // 3)]
        for p in chosen:
            k = rng.choice(["delete", "null", "string", "negative", "list", "object", "float"])
            try:
                m = mutate(doc, p, k, rng)
            except Exception:
                continue
            fp = w("c_%04d.json" % n, json.dumps(m))
            n += 1
            sc.append(("cde:%s:%s:%s" % (res[:4], k, "/".join(map(str, p))[:60]), base + [fp], None, {"file": fp, "cde": True, "track": track}))
        # every string of the document once replaced by a long non-ASCII text (with and without --track)
        strs = [p for p in paths_in(doc) if isinstance(_get(doc, p), str) and len(p) <= 7]
        rng.shuffle(strs)
        pri = [p for p in strs if any(k in ("title", "shortname", "nr") for k in p if isinstance(k, str))]
        for p in (pri[:12] + strs[:max(6, count // 10)]):
            m = mutate(doc, p, "long_unicode", rng)
            fp = w("c_%04d.json" % n, json.dumps(m))
            n += 1
            sc.append(("cde:%s:long_unicode:%s" % (res[:4], "/".join(map(str, p))[:60]), base + [fp], None, {"file": fp, "cde": True, "track": track}))
            if track:
                sc.append(("cde:%s:long_unicode:no-track:%s" % (res[:4], "/".join(map(str, p))[:50]), ["--cde", "--num-threads", "1", fp], None,
                           {"file": fp, "cde": True, "track": None}))
        # every track title (it is printed in the refusal "more than one course track": track_summary) with multi-byte characters around
        # typical truncation widths (40 / 60 / 80 bytes or characters), run WITHOUT --track
        if track:
            tpaths = [p for p in paths_in(doc) if len(p) == 6 and p[0] == "event" and p[1] == "parts" and p[3] == "tracks" and p[5] == "title"]
            for L in (19, 20, 29, 30, 39, 40, 59, 60):
                m = copy.deepcopy(doc)
                for q in tpaths:
                    cur = m
                    for k in q[:-1]:
                        cur = cur[k]
                    cur[q[-1]] = "x" * (L % 2) + "\u00e4" * L + " Nachmittag \U0001F600"
                fp = w("c_title_%s_%d.json" % (res[:4], L), json.dumps(m))
                sc.append(("cde:%s:track-titles-multibyte-%d:no-track" % (res[:4], L), ["--cde", "--num-threads", "1", fp], None, {"file": fp, "cde": True, "track": None}))
        # numeric extremes (values at the edges of the 32 / 64 bit ranges) in the integer fields of the export, with and without the ignore
        # options; num_choices additionally together with registrations whose assigned course is not among their choices (the penalty of
        # an unchosen course is num_choices + 1)
        EXTREME = [2147483647, 2147483648, 4294967295, 4294967296, 9223372036854775807, 18446744073709551615]
        ints = [p for p in paths_in(doc) if isinstance(_get(doc, p), int) and not isinstance(_get(doc, p), bool) and len(p) <= 7]
        pri = [p for p in ints if p[-1] in ("num_choices", "min_size", "max_size", "min_choices")]
        rng.shuffle(ints)
        ign = ["--ignore-assigned", "--ignore-cancelled"]
        for j, p in enumerate(pri[:8] + ints[:max(6, count // 12)]):
            m = copy.deepcopy(doc)
            cur = m
            for k in p[:-1]:
                cur = cur[k]
            cur[p[-1]] = EXTREME[j % len(EXTREME)]
            fp = w("c_%04d.json" % n, json.dumps(m))
            n += 1
            extra = ign if j % 2 == 0 else []
            sc.append(("cde:%s:extreme=%d:%s" % (res[:4], EXTREME[j % len(EXTREME)], "/".join(map(str, p))[:60]), base[:1] + extra + base[1:] + [fp], None,
                       {"file": fp, "cde": True, "track": track, "probe_extra": extra}))
        for j, v in enumerate(EXTREME + [49999, 50000, 65535]):
            m = copy.deepcopy(doc)
            for part in m["event"]["parts"].values():
                for td in part.get("tracks", {}).values():
                    td["num_choices"] = v
            # every second assigned registration loses its assigned course from its choices
            k = 0
            for reg in m["registrations"].values():
                for td in (reg.get("tracks") or {}).values():
                    if isinstance(td, dict) and td.get("course_id") is not None and isinstance(td.get("choices"), list):
                        k += 1
                        if k % 2 == 0:
                            td["choices"] = [c for c in td["choices"] if c != td["course_id"]]
            fp = w("c_%04d.json" % n, json.dumps(m))
            n += 1
            sc.append(("cde:%s:num_choices=%d+unchosen" % (res[:4], v), base[:1] + ign + base[1:] + [fp], None,
                       {"file": fp, "cde": True, "track": track, "probe_extra": ign}))
        # the optional integer fields with a value of the wrong type (C15: "mistyped fields ... refused"; the reader reads them as absent:
        # known finding D17)
        tol = [p for p in paths_in(doc) if p[-1] in ("max_size", "min_size", "course_id", "course_instructor", "num_choices") and len(p) <= 7]
        rng.shuffle(tol)
        seen_names = set()
        for p in tol:
            if p[-1] in seen_names and len(seen_names) < 5:
                continue
            seen_names.add(p[-1])
            if len([x for x in sc if x[0].startswith("cde:%s:mistyped" % res[:4])]) >= 10:
                break
            k = rng.choice(["string", "negative", "float", "list", "bool"])
            m = mutate(doc, p, k, rng)
            fp = w("c_%04d.json" % n, json.dumps(m))
            n += 1
            sc.append(("cde:%s:mistyped:%s:%s" % (res[:4], k, "/".join(map(str, p))[:60]), base + [fp], None, {"file": fp, "cde": True, "track": track}))
        for ver in ([1, 0], [6, 99], [20, 0], [7], "7.0", [7, 0, 1], [], [[]], [None, 0], ["17", 0], [17.5, 0], {}, None, [-1, 0],
                    [18446744073709551616, 0], [17, None], [17, -1], [17, "0"], True, 17):
            m = copy.deepcopy(doc)
            m["EVENT_SCHEMA_VERSION"] = ver
            fp = w("c_%04d.json" % n, json.dumps(m))
            n += 1
            sc.append(("cde:version:%s" % (ver,), base + [fp], None, {"file": fp, "cde": True, "track": track}))
    return sc


def run_scenarios(ctx, binpath, scenarios, jobs=16):
    """runs binary (+ probe where flags are unknown); returns records with flags, exit code, file state"""
    d = os.path.join(ctx.work, "faults")
    from concurrent.futures import ThreadPoolExecutor

    def work(item):
        i, (label, args, flags, info) = item
        outp = info.get("outpath")
        want_out = info.get("out", True)
        a = list(args)
        if want_out and outp is None and a and not info.get("no_out"):
            outp = os.path.join(d, "out_%05d.json" % i)
            if os.path.exists(outp):
                os.remove(outp)
            if info.get("append_out", True) and len(a) > 0 and not a[-1].startswith("--"):
                a.append(outp)
            else:
                outp = None
        r = clirun.run_bin(binpath, a, timeout=120, fsize=info.get("fsize"), closed_stdout=bool(info.get("closed_stdout")))
        fl = flags
        pr = None
        if fl is None:
            pa = ["--file", info["file"]]
            if info.get("cde"):
                pa.append("--cde")
                if info.get("track"):
                    pa += ["--track", info["track"]]
                pa += info.get("probe_extra", [])
            pr = probe(pa)
            fl = default_flags()
            if pr.get("library_panic") or pr.get("probe_failed"):
                fl = None
            elif not pr.get("open_ok", False):
                fl["input_open_ok"] = False
            elif not pr.get("parse_ok", False):
                fl["input_parse_ok"] = False
            else:
                fl["consistent"] = bool(pr.get("consistent"))
                fl["has_participants"] = pr.get("n_participants", 0) > 0
                fl["found"] = bool(pr.get("found")) if pr.get("found") is not None else None
        code = 1000 if r["timeout"] else (r["rc"] if r["rc"] is not None and r["rc"] >= 0 else 1001)
        mistyped = []
        if info.get("cde") and info.get("file") and os.path.isfile(info["file"]):
            try:
                mistyped = cde_mistyped_fields(json.load(open(info["file"], encoding="utf-8")))
            except Exception:
                mistyped = []
        return {"closed_stdout": bool(info.get("closed_stdout")), "mistyped": mistyped, "label": label, "args": a, "flags": fl, "probe": pr, "exit": code, "stderr": r["stderr"][-500:], "outpath": outp,
                "file_ok": file_state(outp, "--cde" in a) if outp else False,
                "file_exists": bool(outp and os.path.exists(outp)), "panicked": "panicked" in r["stderr"]}

    with ThreadPoolExecutor(max_workers=jobs) as ex:
        return list(ex.map(work, list(enumerate(scenarios))))


def eval_exit_cases(ctx, recs):
    d = os.path.join(ctx.work, "faults")
    idx = [i for i, r in enumerate(recs) if r["flags"] is not None and r["flags"].get("found") is not None]
    texts = []
    for i in idx:
        r = recs[i]
        fl = "[" + "; ".join("true" if r["flags"][k] else "false" for k in FLAGS) + "]"
        texts.append("(%s, %d%%nat, %s)" % (fl, r["exit"], "true" if r["file_ok"] else "false"))
    p = os.path.join(d, "cases_exit_00.v")
    with open(p, "w") as f:
        f.write("From Coq Require Import List NArith.\nImport ListNotations.\nRequire Import CorrExit.\n")
        f.write("Definition cases : list exit_case := [\n  " + ";\n  ".join(texts) + "\n].\nEval vm_compute in map check_exit cases.\n")
    codes = [c for blk in vlib.coqc_cases(p) for c in blk] if texts else []
    for i, c in zip(idx, codes):
        recs[i]["code"] = c
    return recs


def scenarios_c16(ctx, binpath):
    d = os.path.join(ctx.work, "faults")
    os.makedirs(d, exist_ok=True)
    rng = random.Random(ctx.seed + 16)
    sc = []
    good = None
    for _ in range(50):
        cand = valid_simple_doc(rng)
        fp = os.path.join(d, "c16_good.json")
        json.dump(cand, open(fp, "w"))
        if probe(["--file", fp]).get("found"):
            good = fp
            break
    inputs = []
    if good:
        inputs.append(("simple", ["--num-threads", "1"], good))
    inputs.append(("cde", ["--cde", "--track", "3", "--num-threads", "1"], os.path.join(TESTRES, "TestAka_partial_export_event.json")))
    inputs.append(("cde-large", ["--cde", "--num-threads", "1"], os.path.join(TESTRES, "cyta_partial_export_event.json")))
    # documents of more than 8 KiB (a buffered writer hands such a document to the file in one piece, a smaller one only when flushing):
    # simple format: one course whose 6000 instructors are all assigned to it; CdE: the large fixture with 260 more registrations
    big = os.path.join(d, "c16_big_simple.json")
    json.dump({"format": "X-coursedata-simple", "version": "1.0",
               "courses": [{"name": "Plenum", "num_min": 0, "num_max": 3, "instructors": list(range(6000))}],
               "participants": [{"name": "I%d" % i, "choices": []} for i in range(6000)] + [{"name": "P", "choices": [{"course": 0, "penalty": 0}]}]},
              open(big, "w"))
    inputs.append(("simple-big", ["--num-threads", "1"], big))
    try:
        cy = json.load(open(os.path.join(TESTRES, "cyta_partial_export_event.json"), encoding="utf-8"))
        rid0 = sorted(cy["registrations"], key=int)[0]
        nxt = max(int(k) for k in cy["registrations"]) + 1
        for j in range(260):
            reg = copy.deepcopy(cy["registrations"][rid0])
            if isinstance(reg.get("persona"), dict):
                reg["persona"]["family_name"] = "Klon%d" % j
            for td in reg.get("tracks", {}).values():
                td["course_instructor"] = None
                td["course_id"] = None
                td["choices"] = [int(c) for c in cy["courses"]]
            cy["registrations"][str(nxt + j)] = reg
        for c in cy["courses"].values():
            c["max_size"] = 100
            c["min_size"] = 0
        bigc = os.path.join(d, "c16_big_cde.json")
        json.dump(cy, open(bigc, "w", encoding="utf-8"), ensure_ascii=False)
        if probe(["--file", bigc, "--cde"]).get("found"):
            inputs.append(("cde-big", ["--cde", "--num-threads", "1"], bigc))
    except Exception:
        pass
    regular = os.path.join(d, "regular_file")
    open(regular, "w").write("x")
    adir = os.path.join(d, "a_directory")
    os.makedirs(adir, exist_ok=True)
    fl = default_flags()
    for name, base, inp in inputs:
        for pr in (False, True):
            opts = base + (["--print"] if pr else [])
            tag = "%s%s" % (name, "+print" if pr else "")
            ok = os.path.join(d, "c16_ok_%s.json" % tag)
            stale = os.path.join(d, "c16_stale_%s.json" % tag)
            open(stale, "w").write(json.dumps({"junk": ["x" * 50] * 4000}))
            for fault, outp, create_ok, write_ok in [
                ("none", ok, True, True),
                ("stale-longer-file", stale, True, True),
                ("ENOENT", os.path.join(d, "missing_dir", "out.json"), False, True),
                ("ENOTDIR", os.path.join(regular, "out.json"), False, True),
                ("EISDIR", adir, False, True),
                ("ENAMETOOLONG", os.path.join(d, "n" * 5000 + ".json"), False, True),
                ("ENOSPC", "/dev/full", True, False),
                # the device takes only the first 40 / 200 bytes of the document (RLIMIT_FSIZE: short write, then EFBIG)
                ("PARTIAL-40", os.path.join(d, "c16_part40_%s.json" % tag), True, False),
                ("PARTIAL-200", os.path.join(d, "c16_part200_%s.json" % tag), True, False),
            ] + ([("PARTIAL-9000", os.path.join(d, "c16_part9000_%s.json" % tag), True, False)] if name.endswith("-big") else []):
                if fault.startswith("PARTIAL") and os.path.exists(outp):
                    os.remove(outp)
                if fault == "none" and os.path.exists(ok):
                    os.remove(ok)
                sc.append(("c16:%s:%s" % (tag, fault), opts + [inp, outp], dict(fl, create_ok=create_ok, write_ok=write_ok),
                           {"outpath": outp, "append_out": False, "fault": fault, "cde": name != "simple",
                            "fsize": int(fault.split("-")[1]) if fault.startswith("PARTIAL") else None}))
                if pr and fault in ("ENOENT", "EISDIR", "ENOSPC") and not name.endswith("-big") and name != "cde-large":
                    # the same fault while the reader of stdout is gone (`cdecao --print ... | head`): the listing cannot be printed either
                    sc.append(("c16:%s:%s+stdout-closed" % (tag, fault), opts + [inp, outp], dict(fl, create_ok=create_ok, write_ok=write_ok),
                               {"outpath": outp, "append_out": False, "fault": fault, "cde": name != "simple", "closed_stdout": True}))
    return sc
