"""CdE Datenbank exports (C05, C11, C12, C13, C08 external quality): generator of well-formed partial exports, Gallina printer of JSON
values, reader correspondence (cdedb::read through `vh cderead` against Json.read_full) and end-to-end runs of the real binary whose
import file is checked in Coq (Cde.import_okb, write model)."""
import copy
import json
import re
import os
import random
import struct

import clirun
import vlib

NRS = ["1", "2", "3", "10", "11", "α", "β2", "A", "Z9", "007", "12b", "ö"]
READ = {"agree": 1, "accepted": 2}
IMP = {"model_reads": 1, "file": 2, "import_ok": 4, "write_agree": 8, "hard": 16}


def gen_export(r, dense_assign=False):
    e = {"EVENT_SCHEMA_VERSION": [r.choice([16] * 40 + [7, 19, 6, 20]), r.choice([0, 0, 3])], "kind": r.choice(["partial"] * 60 + ["full"]),
         "id": r.randint(1, 9), "timestamp": "2023-04-23T12:02:09.906237+00:00", "lodgement_groups": {}, "lodgements": {}}
    nparts = r.randint(1, 3)
    parts = {}
    tracks = []
    pids = r.sample(range(1, 30), nparts)
    single = r.random() < 0.3        # exactly one track in an event with several parts (automatic track selection)
    if single:
        nparts = r.randint(2, 3)
        pids = r.sample(range(1, 30), nparts)
    owner = r.choice(pids)
    for pid in pids:
        nt = r.choice([0, 1, 1, 2]) if not single else (1 if pid == owner else 0)
        ts = {}
        for _ in range(nt):
            t = r.choice([x for x in range(1, 25) if x not in [a for a, _ in tracks]])
            tracks.append((t, pid))
            ts[str(t)] = {"title": "Träck %d" % t, "shortname": "t%d" % t, "num_choices": r.randint(1, 4), "min_choices": 1, "sortkey": r.randint(0, 5)}
        parts[str(pid)] = {"title": "P", "shortname": "p", "tracks": ts}
    if not tracks and r.random() < 0.85:
        pid = pids[0]
        t = 7
        tracks.append((t, pid))
        parts[str(pid)]["tracks"][str(t)] = {"title": "T7", "shortname": "t7", "num_choices": 3, "min_choices": 1, "sortkey": 1}
    e["event"] = {"parts": parts}
    nc = r.randint(2, 7)
    cids = r.sample(range(1, 40), nc)
    courses = {}
    nrs = r.sample(NRS, nc) if r.random() < 0.8 else [r.choice(NRS) for _ in range(nc)]
    for cid, nr in zip(cids, nrs):
        seg = {}
        for t, _ in tracks:
            x = r.choice(["absent", True, True, True, True, False])
            if x != "absent":
                seg[str(t)] = x
        mx = r.choice([None, None, 1, 2, 3, 4, 6])
        mn = r.choice([None, 0, 0, 1, 2])
        if mx is not None and mn is not None and mn > mx and r.random() < 0.97:
            mn = mx
        fields = {}
        if r.random() < 0.5:
            fields["rf"] = r.choice([0.0, 0.5, 1.25, 1.5, 2, 2.5, 1.1, "big", None, True])
        if r.random() < 0.5:
            fields["ro"] = r.choice([0, 1, 2.5, 3, 12, -1.5, "x", None])
        c = {"nr": nr, "shortname": "Kürs%d" % cid, "segments": seg, "fields": fields}
        if r.random() < 0.9:
            c["min_size"] = mn
        if r.random() < 0.9:
            c["max_size"] = mx
        if r.random() < 0.05:
            c["max_size"] = r.choice([2.5, -3, "4"])
        courses[str(cid)] = c
    if len(courses) >= 2 and sum(int(k) for k in courses) % 4 == 1:
        # (no random draw) a course closed for attendees: max_size explicitly 0, which is a limit and not "no limit given"
        c0 = courses[min(courses, key=int)]
        c0["max_size"] = 0
        if c0.get("min_size"):
            c0["min_size"] = 0
    e["courses"] = courses
    nr_ = r.randint(1, 10) if r.random() < 0.4 else r.randint(4, 12)
    rids = r.sample(range(1, 60), nr_)
    regs = {}
    for rid in rids:
        rp = {}
        for pid in pids:
            if r.random() < 0.93:
                rp[str(pid)] = {"status": r.choice([-1, 1, 2, 2, 2, 2, 2, 3, 4, 5])}
        rt = {}
        for t, _ in tracks:
            ch = r.sample(cids, r.randint(0, min(4, nc)))
            assigned = r.choice(([None] if not dense_assign else []) + [None] + cids)
            if dense_assign and r.random() < 0.35:
                assigned = None      # enough people are left for the optimiser under --ignore-assigned
            instr = r.choice([None] * 5 + cids)
            if dense_assign and instr is not None and r.random() < 0.5:
                assigned = instr
            if r.random() < 0.12:
                # instructor-only registration (no choices): assigned only if the course takes place
                ch = []
                instr = instr if instr is not None else r.choice(cids)
                if not dense_assign:
                    assigned = None
            rt[str(t)] = {"course_id": assigned, "course_instructor": instr, "choices": ch}
        regs[str(rid)] = {"parts": rp, "tracks": rt, "persona": {"given_names": "Gé%d" % rid, "family_name": "R%d" % rid}}
    if r.random() < 0.15:
        # ties: everybody has the same choice list and the courses are small, so that equally good solutions exist and the one found
        # depends on the order of the participants
        common = r.sample(cids, min(3, nc))
        for reg in regs.values():
            for rt in reg["tracks"].values():
                if rt["choices"]:
                    rt["choices"] = list(common)
        for c in courses.values():
            c["max_size"] = r.choice([1, 2, 2])
            c["min_size"] = 0
    e["registrations"] = regs
    return e, tracks


def make_ties(r, e):
    """everybody gets the same choice list and the courses are small: equally good solutions exist, the one found depends on the ORDER of the
    participants"""
    cids = [int(c) for c in e["courses"]]
    common = r.sample(cids, min(3, len(cids)))
    for reg in e["registrations"].values():
        for rt in reg["tracks"].values():
            if rt["choices"]:
                rt["choices"] = list(common)
    for c in e["courses"].values():
        c["max_size"] = r.choice([1, 2, 2])
        c["min_size"] = 0


def cstr(s):
    return '"' + s.replace('"', '""') + '"'


def coq(v):
    if v is None:
        return "JNull"
    if v is True:
        return "(JBool true)"
    if v is False:
        return "(JBool false)"
    if isinstance(v, int):
        return "(JInt (%d)%%Z)" % v
    if isinstance(v, float):
        return "(JNum %d%%Z)" % struct.unpack("<I", struct.pack("<f", v))[0]
    if isinstance(v, str):
        return "(JStr %s)" % cstr(v)
    if isinstance(v, list):
        return "(JArr [" + "; ".join(coq(x) for x in v) + "])"
    if isinstance(v, dict):
        return "(JObj [" + "; ".join("(%s, %s)" % (cstr(k), coq(x)) for k, x in v.items()) + "])"
    raise ValueError(v)


def g_expected(d):
    if d is None or "err" in d:
        return "None"
    ps = "; ".join("((%d)%%Z, %s, [%s])" % (p["dbid"], cstr(p["name"]), "; ".join("(%d%%nat,%d%%nat)" % (c[0], c[1]) for c in p["choices"])) for p in d["participants"])
    cs = "; ".join("((%d)%%Z, %s, (%d)%%Z, (%d)%%Z, [%s], %s, [%s], %d%%Z, %d%%Z)" % (
        c["dbid"], cstr(c["name"]), c["min"], c["max"], "; ".join("%d%%nat" % i for i in c["instr"]), "true" if c["fixed"] else "false",
        "; ".join(cstr(h) for h in c["hidden"]), c["fbits"], c["obits"]) for c in d["courses"])
    q = "None" if d["quality"] is None else "(Some (%d%%nat, [%s]))" % (d["quality"][0], "; ".join("%d%%nat" % x for x in d["quality"][1]))
    nic = d.get("ign_courses")
    return "(Some ([%s], [%s], %s, (%d)%%Z, (%d)%%Z, %d%%nat, %s))" % (ps, cs, q, d["event_id"], d["track_id"], d["ign_regs"] or 0,
                                                                  "None" if nic is None else "(Some %d%%nat)" % nic)


def g_opts(track, ic, ia):
    return "%s, %s, %s" % ("None" if track is None else "(Some (%d)%%Z)" % track, "true" if ic else "false", "true" if ia else "false")


def g_field(f):
    return "None" if f is None else "(Some %s)" % cstr(f)


def eval_cases(ctx, name, ctype, check, texts, shards=16, header="Require Import Json Cde CorrCde.\nOpen Scope string_scope.\nOpen Scope list_scope."):
    d = os.path.join(ctx.work, "cde")
    os.makedirs(d, exist_ok=True)
    paths = []
    for si in range(shards):
        ch = texts[si::shards]
        if not ch:
            continue
        p = os.path.join(d, "cases_%s_%02d.v" % (name, si))
        with open(p, "w", encoding="utf-8") as f:
            f.write("From Coq Require Import List NArith ZArith String.\nImport ListNotations.\n%s\n" % header)
            f.write("Definition cases : list %s := [\n  " % ctype + ";\n  ".join(ch) + "\n].\nEval vm_compute in map %s cases.\n" % check)
        paths.append((si, p))
    res = vlib.run_shards([p for _, p in paths], timeout=1500)
    codes = [None] * len(texts)
    for (si, _), blk in zip(paths, res):
        flat = [c for b in blk for c in b]
        idxs = list(range(si, len(texts), shards))
        if len(flat) != len(idxs):
            raise RuntimeError("case count mismatch in %s" % name)
        for i, c in zip(idxs, flat):
            codes[i] = c
    return codes


def make_exports(ctx, seed, count, dense_assign=False):
    d = os.path.join(ctx.work, "cde")
    os.makedirs(d, exist_ok=True)
    r = random.Random(seed)
    out = []
    for i in range(count):
        e, tracks = gen_export(r, dense_assign=dense_assign or (i % 3 == 0))
        path = os.path.join(d, "export_%04d.json" % i)
        json.dump(e, open(path, "w", encoding="utf-8"), ensure_ascii=False)
        out.append({"id": i, "file": path, "export": e, "tracks": tracks})
    return r, out


def option_sets(r, ex, n=2):
    tchoices = [t for t, _ in ex["tracks"]] * 4 + [99]
    res = []
    for _ in range(n):
        # no track given: about 1 in 4 (accepted only for events with exactly one track overall)
        track = (None if r.random() < 0.25 else r.choice(tchoices)) if ex["tracks"] else None
        res.append((track, r.random() < 0.5, r.random() < 0.5))
    return res


def option_sets_e2e(r, ex, n=2):
    """as option_sets, but mostly options the reader accepts (the refusals are C12's / C15's subject): no --track mostly for single-track events,
    an unknown track rarely"""
    ts = [t for t, _ in ex["tracks"]]
    res = []
    for _ in range(n):
        x = r.random()
        if not ts:
            track = None
        elif x < 0.04:
            track = 99
        elif x < (0.40 if len(ts) == 1 else 0.08):
            track = None
        else:
            track = r.choice(ts)
        res.append((track, r.random() < 0.5, r.random() < 0.5))
    return res


def read_cases(ctx, seed, count):
    """reader correspondence: returns list of records {export id, opts, impl, code}"""
    r, exports = make_exports(ctx, seed, count)
    lst = []
    for ex in exports:
        for (track, ic, ia) in option_sets(r, ex):
            ff, of = r.choice([(None, None), (None, None), ("rf", "ro"), ("rf", None), (None, "ro"), ("nosuch", "ro")])
            lst.append({"file": ex["file"], "track": track, "ic": ic, "ia": ia, "id": ex["id"], "ff": ff, "of": of})
    d = os.path.join(ctx.work, "cde")
    lp = os.path.join(d, "readlist.json")
    json.dump(lst, open(lp, "w"))
    rc, out, err, _ = vlib.run([vlib.VH, "cderead", "--list", lp], timeout=600)
    impl = json.loads(out.strip().split("\n")[-1])
    texts = []
    for q, im in zip(lst, impl):
        ex = exports[q["id"]]
        texts.append("(%s, %s, %s, %s, %s)" % (coq(ex["export"]), g_opts(q["track"], q["ic"], q["ia"]), g_field(q["ff"]), g_field(q["of"]), g_expected(im)))
    codes = eval_cases(ctx, "read", "read_case", "check_read", texts)
    recs = []
    for q, im, c in zip(lst, impl, codes):
        recs.append({"export_file": q["file"], "export": exports[q["id"]]["export"], "track": q["track"], "ignore_cancelled": q["ic"],
                     "ignore_assigned": q["ia"], "room_factor_field": q["ff"], "room_offset_field": q["of"], "impl": im if ("err" in im or "panic" in im) else {"participants": len(im["participants"]), "courses": len(im["courses"]), "quality": im["quality"]},
                     "impl_full": im, "code": c})
    return recs


def parse_import_file(path):
    try:
        d = json.load(open(path, encoding="utf-8"))
    except Exception as e:
        return "import file does not parse: %s" % e
    if not isinstance(d, dict) or d.get("kind") != "partial" or "registrations" not in d or "courses" not in d:
        return "import file lacks kind/registrations/courses"
    return d


def import_lists(d, track_id):
    """(registrations [(rid, cid)], courses [(cid, active)]) or a string if the file mentions another track / malformed entries"""
    regs, crs = [], []
    for rid, v in d["registrations"].items():
        tr = v.get("tracks", {})
        if list(tr.keys()) != [str(track_id)]:
            return "registration %s names tracks %s, selected track is %s" % (rid, list(tr.keys()), track_id)
        regs.append((int(rid), tr[str(track_id)]["course_id"]))
    for cid, v in d["courses"].items():
        sg = v.get("segments", {})
        if list(sg.keys()) != [str(track_id)]:
            return "course %s names segments %s, selected track is %s" % (cid, list(sg.keys()), track_id)
        crs.append((int(cid), bool(sg[str(track_id)])))
    return regs, crs


def g_import(lists):
    if lists is None:
        return "None"
    regs, crs = lists
    return "(Some ([%s], [%s]))" % ("; ".join("((%d)%%Z, (%d)%%Z)" % x for x in regs), "; ".join("((%d)%%Z, %s)" % (c, "true" if a else "false") for c, a in crs))


def directed_rooms(r, e, tid):
    """a room list that just covers the places LEFT in every course of the track (max_size minus the registrations already assigned to it): with
    --ignore-assigned the rooms then have to take the pre-assigned people as well -- at least as many rooms as courses"""
    part = [pid for pid, p in e["event"]["parts"].items() if str(tid) in p["tracks"]]
    if not part:
        return None
    part = part[0]
    left = []
    for cid, c in e["courses"].items():
        if str(tid) not in c.get("segments", {}):
            continue
        mx = c.get("max_size")
        mx = mx if isinstance(mx, int) and not isinstance(mx, bool) and mx >= 0 else 25
        pre = sum(1 for g in e["registrations"].values()
                  if (g["parts"].get(part) or {}).get("status") == 2 and (g["tracks"].get(str(tid)) or {}).get("course_id") == int(cid))
        left.append(max(mx - pre, 0))
    if not left or max(left) > 12:
        return None
    b = max(left) + r.choice([0, 0, 1])
    return [b] * (len(left) + r.randint(0, 1))


def gen_room_opts(r, d, idx, ex=None, tid=None):
    """room options of an end-to-end run: (args, rooms_arg) with rooms_arg = ('list', sizes) | ('file', kinds in file order), and the
    name of the possible-rooms field (or None)"""
    field = "raum" if r.random() < 0.7 else None
    if ex is not None and tid is not None and r.random() < 0.35:
        sizes = directed_rooms(r, ex, tid)
        if sizes:
            return ["--rooms", ",".join(map(str, sizes))] + (["--possible-rooms-field", field] if field else []), ("list", sizes), field
    if r.random() < 0.5:
        sizes = [r.choice([0, 1, 2, 3, 4, 5, 6, 8, 12]) for _ in range(r.randint(1, 9))]
        return ["--rooms", ",".join(map(str, sizes))] + (["--possible-rooms-field", field] if field else []), ("list", sizes), field
    kinds = []
    for k in range(r.randint(0, 5)):
        kinds.append({"name": r.choice(["Saal", "Raum", "H\u00f6rsaal", "K", "Zelt \u00df"]) + " %d" % k, "capacity": r.choice([0, 1, 2, 3, 4, 5, 6, 8, 12]),
                      "quantity": r.choice([0, 1, 1, 2, 3])})
    if kinds and r.random() < 0.3:
        # a kind given twice (same name, same capacity) ...
        k0 = dict(r.choice(kinds))
        k0["quantity"] = r.choice([1, 1, 2])
        kinds.insert(r.randint(0, len(kinds)), k0)
    if len(kinds) >= 2 and r.random() < 0.2:
        # ... and namesakes of different capacity
        for k in kinds:
            k["name"] = "Raum"
    fp = os.path.join(d, "rooms_%05d.json" % idx)
    json.dump(kinds, open(fp, "w", encoding="utf-8"), ensure_ascii=False)
    return ["--rooms-file", fp] + (["--possible-rooms-field", field] if field else []), ("file", kinds), field


def g_rooms_arg(ra):
    if ra is None:
        return "(None, None)"
    if ra[0] == "list":
        return "(Some [" + "; ".join("%d%%nat" % x for x in ra[1]) + "], None)"
    return "(None, Some [" + "; ".join("(%s, %d%%nat, %d%%nat)" % (cstr(k["name"]), k["capacity"], k["quantity"]) for k in ra[1]) + "])"


def e2e_cases(ctx, seed, count, binpath, opts_fn=None, dense_assign=True, threads=1, rooms=False):
    """runs the real binary --cde on generated exports; returns records with the import file checked in Coq"""
    r, exports = make_exports(ctx, seed, count, dense_assign=dense_assign)
    d = os.path.join(ctx.work, "cde")
    tasks = []
    for ex in exports:
        if ex["export"]["kind"] != "partial" or not ex["tracks"]:
            continue
        for (track, ic, ia) in (opts_fn(r, ex) if opts_fn else option_sets_e2e(r, ex, 2)):
            outp = os.path.join(d, "import_%04d_%d.json" % (ex["id"], len(tasks)))
            if os.path.exists(outp):
                os.remove(outp)
            args = ["--cde", "--num-threads", str(threads)] + (["--track", str(track)] if track is not None else []) + (["-i"] if ic else []) + (["-j"] if ia else [])
            ffof = []
            if r.random() < (0.6 if rooms else 0.35):
                ffof = r.choice([["--room-factor-field", "rf", "--room-offset-field", "ro"], ["--room-factor-field", "rf"], ["--room-offset-field", "ro"]])
                args += ffof
            rinfo = None
            if rooms:
                tid_ = track if track is not None else (ex["tracks"][0][0] if len(ex["tracks"]) == 1 else None)
                rargs, rarg, rfield = gen_room_opts(r, d, len(tasks), ex["export"], tid_)
                args += rargs
                rinfo = {"rooms_arg": rarg, "field": rfield, "ff": "rf" if "--room-factor-field" in ffof else None,
                         "of": "ro" if "--room-offset-field" in ffof else None}
            ffname = "rf" if "--room-factor-field" in ffof else None
            ofname = "ro" if "--room-offset-field" in ffof else None
            tasks.append((ex, track, ic, ia, args + [ex["file"], outp], outp, rinfo, (ffname, ofname)))
    from concurrent.futures import ThreadPoolExecutor

    def work(t):
        ex, track, ic, ia, args, outp, rinfo, _ffof = t
        run = clirun.run_bin(binpath, args)
        return run

    with ThreadPoolExecutor(max_workers=16) as exr:
        runs = list(exr.map(work, tasks))
    recs, texts = [], []
    rtexts, ridx = [], []
    dtexts, didx = [], []
    for (ex, track, ic, ia, args, outp, rinfo, (ffname, ofname)), run in zip(tasks, runs):
        lists = None
        problem = None
        dfile = None
        if os.path.exists(outp):
            dfile = parse_import_file(outp)
            if isinstance(dfile, str):
                problem = dfile
            else:
                tids = {k for v in dfile["registrations"].values() for k in v.get("tracks", {})} | {k for v in dfile["courses"].values() for k in v.get("segments", {})}
                tid = track if track is not None else (ex["tracks"][0][0] if len(ex["tracks"]) == 1 else None)
                if tid is None and tids:
                    tid = int(sorted(tids)[0])
                il = import_lists(dfile, tid)
                if isinstance(il, str):
                    problem = il
                else:
                    lists = il
        texts.append("(%s, %s, %s)" % (coq(ex["export"]), g_opts(track, ic, ia), g_import(lists)))
        recs.append({"export_file": ex["file"], "export": ex["export"], "track": track, "ignore_cancelled": ic, "ignore_assigned": ia, "args": args,
                     "exit": run["rc"], "timeout": run["timeout"], "stderr": run["stderr"][-400:], "import": dfile if isinstance(dfile, dict) else None,
                     "lists": lists, "problem": problem, "panicked": "panicked" in run["stderr"], "rooms": rinfo})
        if isinstance(dfile, dict):
            # the whole document (CorrDoc.check_cde_doc)
            # the two quality figures printed in the tail of the summary (Display of the binary32 values), as bit patterns
            g_figs = "None"
            mq = re.search(r"with solution quality (\S+) / overall assignment quality (\S+)\. Based on", str(dfile.get("summary", "")))
            if mq:
                try:
                    g_figs = "(Some ((%d)%%Z, (%d)%%Z))" % tuple(struct.unpack("<I", struct.pack("<f", float(x)))[0] for x in mq.groups())
                except (ValueError, OverflowError):
                    g_figs = "(Some ((-1)%Z, (-1)%Z))"
            else:
                g_figs = "(Some ((-2)%Z, (-2)%Z))"
            dtexts.append("(%s, %s, %s, %s, %s, %s, %s, %s)" % (coq(ex["export"]), g_opts(track, ic, ia), g_field(ffname), g_field(ofname),
                                                               g_rooms_arg(rinfo["rooms_arg"] if rinfo else None), g_field(rinfo["field"] if rinfo else None), coq(dfile), g_figs))
            didx.append(len(recs) - 1)
        if rinfo is not None and lists is not None and isinstance(dfile, dict):
            # the possible-rooms field as written: course id -> string (None when some course carries no such field)
            fvals = None
            if rinfo["field"]:
                fvals = []
                for cid, cv in dfile["courses"].items():
                    v = (cv.get("fields") or {}).get(rinfo["field"]) if isinstance(cv, dict) else None
                    if isinstance(v, str):
                        fvals.append((int(cid), v))
            g_f = "None" if fvals is None else "(Some [" + "; ".join("((%d)%%Z, %s)" % (cid, cstr(v)) for cid, v in fvals) + "])"
            rtexts.append("(%s, %s, %s, %s, [%s], %s, %s)" % (coq(ex["export"]), g_opts(track, ic, ia), g_field(rinfo["ff"]), g_field(rinfo["of"]),
                                                              "; ".join("((%d)%%Z, (%d)%%Z)" % (a, b) for a, b in lists[0]), g_rooms_arg(rinfo["rooms_arg"]), g_f))
            ridx.append(len(recs) - 1)
    codes = eval_cases(ctx, "import", "import_case", "check_import", texts)
    for rec, c in zip(recs, codes):
        rec["code"] = c
    if rtexts:
        rcodes = eval_cases(ctx, "cderooms", "cde_rooms_case", "check_cde_rooms", rtexts,
                            header="Require Import Json Cde CorrCde CorrCdeRooms.\nOpen Scope string_scope.\nOpen Scope list_scope.")
        for i, c in zip(ridx, rcodes):
            recs[i]["rooms_code"] = c
    if dtexts:
        dcodes = eval_cases(ctx, "cdedoc", "cde_doc_case", "check_cde_doc", dtexts,
                            header="Require Import Json Cde CorrCde CorrCdeRooms CorrDoc.\nOpen Scope string_scope.\nOpen Scope list_scope.")
        for i, c in zip(didx, dcodes):
            recs[i]["doc_code"] = c
    return recs
