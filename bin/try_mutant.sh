#!/bin/bash
# usage: try_mutant.sh <patch file> <property id>...   applies the patch to /repo, runs the quick checks, reverts
patch="$1"; shift
cd /repo || exit 2
if ! git diff --quiet; then echo "repo dirty"; exit 2; fi
git apply "$patch" 2>/dev/null || git apply -3 "$patch" 2>/dev/null || { patch -p1 --no-backup-if-mismatch < "$patch" >/dev/null || { echo "patch does not apply"; git checkout -- .; exit 2; }; }
for pid in "$@"; do
  ( cd /verif && timeout 3000 python3 bin/check.py "$pid" --tier "${TIER:-quick}" 2>/dev/null | grep -E "^(VIOLATION|OK|KNOWN)" | cut -c1-400; echo "  -> $pid exit=${PIPESTATUS[0]}" )
done
cd /repo && git checkout -- . && git status --short | grep -v '^??' | head -3
