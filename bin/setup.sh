#!/bin/bash
# Builds the framework from files on disk only (offline): the Coq development (full .vo build) and the Rust harness.
set -e
cd "$(dirname "$0")/.."
export CARGO_NET_OFFLINE=true CARGO_TARGET_DIR="$(pwd)/target"
mkdir -p work evidence replays
python3 bin/extract_consts.py
( cd coq && coq_makefile -f _CoqProject -o Makefile >/dev/null && timeout 3000 make -j16 >work_make.log 2>&1 || { tail -50 work_make.log; exit 1; } ; rm -f work_make.log )
cp /repo/Cargo.lock harness/Cargo.lock
( cd harness && timeout 1500 cargo build --offline --quiet )
( T="$(pwd)/target/cli"; cd /repo && CARGO_TARGET_DIR="$T" timeout 1500 cargo build --offline --quiet )
echo "setup ok"
