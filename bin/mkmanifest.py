#!/usr/bin/env python3
"""Regenerates MANIFEST.json from the table below (kept in one place so that it is always valid and current)."""
import json
import os
import subprocess

VERIF = os.path.dirname(os.path.dirname(os.path.abspath(__file__)))
props = [json.loads(l) for l in open(os.path.join(VERIF, "properties.jsonl"))]

# pid -> (level text, level note, technique, design ref)
CLAIMED = {
 "C20": ("Unbounded theorems (all n, k) about a Gallina model of util.rs: the iterator yields exactly the C(n,k) strictly increasing index "
         "vectors, each once, with exact size hints; binom is exact (and overflow-free in 64 bit for n<=57). The model is tied to the code on "
         "every run by exhaustive differential execution for all (n,k) up to the tier bound, evaluated inside Coq.",
         "Trusted: Coq kernel + vm_compute; hand-written model SelModel.v (faithfulness = correspondence run, exhaustive for n<=12 quick / "
         "n<=16 thorough, binom for n<=40); harness printers; no axioms (Print Assumptions: closed under the global context).",
         "Coq proof (rank/Pascal induction, counting) + model-vs-code correspondence by vm_compute", "DESIGN.md section 6 C20"),
 "C07": ("Theorem C07: for EVERY weight matrix and masks that admit a perfect allowed matching, the Gallina transcription of "
         "hungarian_algorithm is never stuck and returns a perfect allowed matching of maximal weight whose weight is the returned score "
         "(or the explicit range-checked i32 Overflow outcome); C07_total: with weights in [0, Wmax] and (N + 2) * Wmax <= i32::MAX the Overflow "
         "outcome is impossible (dual-objective potential: every label stays within [-N*Wmax, (N+1)*Wmax]), so the optimal matching is always "
         "returned; C07_partial: whenever it answers, the answer is optimal. Proved by the "
         "classical invariants (dual feasibility, tight matched edges, alternating tree, Hall-type progress). Tied to "
         "hungarian.rs by exact comparison of matching, score and final dual labels on generated inputs inside Coq.",
         "Trusted: Coq kernel + vm_compute; model HP1.v is a hand transcription (faithfulness = correspondence run); the i32 range "
         "checks of the code are part of the model (explicit Overflow outcome) and proved unreachable under the size bound; no axioms.",
         "Coq proof (primal-dual invariants) + model-vs-code correspondence by vm_compute", "DESIGN.md section 6 C07, Appendix B.1"),
}
EXTRA = os.path.join(VERIF, "bin", "manifest_extra.json")
if os.path.exists(EXTRA):
    for k, v in json.load(open(EXTRA)).items():
        CLAIMED[k] = tuple(v)

NA_REASON = json.load(open(os.path.join(VERIF, "bin", "not_applicable.json"))) if os.path.exists(os.path.join(VERIF, "bin", "not_applicable.json")) else {}


def chk(pid, text, note, tech, ref):
    return {"property_id": pid, "quick_cmd": "python3 bin/check.py %s --tier quick" % pid,
            "thorough_cmd": "python3 bin/check.py %s --tier thorough" % pid,
            "evidence_file": "/verif/evidence/%s.json" % pid,
            "replay_cmd_template": "python3 bin/check.py %s --replay {path}" % pid, "engine": "coq-model+correspondence",
            "level_claimed": {"category": "proof", "text": text, "design_ref": ref}, "level_note": note, "technique": tech}


hooks = subprocess.run(["git", "-C", "/repo", "log", "--format=%h %s"], stdout=subprocess.PIPE).stdout.decode().split("\n")
hook_commits = [l.split()[0] for l in hooks if l.split()[1:2] == ["verif"]]
m = {"version": 1, "setup_cmd": "bash bin/setup.sh",
     "hooks": {"guard": "cargo feature `verif`",
               "enable": "the harness crate /verif/harness depends on cdecao = { path = \"/repo\", features = [\"verif\"] }; "
                         "`cargo build --offline` in /verif/harness (done by every check)",
               "baseline_off_cmd": "cd /repo && cargo test --workspace --no-fail-fast --offline",
               "source_commits": hook_commits,
               "add_only": False},
     "engines": [{"name": "coq-model+correspondence", "path": "/verif/bin/check.py", "serves_properties": sorted(CLAIMED),
                  "kind_free_text": "Coq 8.16 proofs about a hand-written Gallina model (coq/), tied to /repo on every run by a Rust "
                                    "harness (harness/, built against /repo's working tree with feature verif) whose generated cases are "
                                    "evaluated by vm_compute inside Coq; constants regenerated from the Rust sources"}],
     "checks": [chk(pid, *CLAIMED[pid]) for pid in sorted(CLAIMED)],
     "notes": "See DESIGN.md. add_only is false because src/bab.rs's two `use` lines were turned into cfg pairs (scheduler shim); all other "
              "hook edits only add code. Known findings: known_findings.json (fix: commits recorded there as fixed: entries).",
     "not_applicable": [{"property_id": p["id"], "reason": NA_REASON.get(p["id"], "check under construction in this session (model and "
                         "proofs exist as design spikes, see DESIGN.md); not claimed until its check runs end to end")}
                        for p in props if p["id"] not in CLAIMED]}
json.dump(m, open(os.path.join(VERIF, "MANIFEST.json"), "w"), indent=1)
print("claimed:", sorted(CLAIMED))
