#!/usr/bin/env python3
"""Common machinery of the cdecao verification driver (see DESIGN.md section 2.4).

Every check does, in this order:
  1. regenerate coq/gen/Consts.v from /repo and (incrementally) build the Coq development with `make`;
  2. hygiene: no Admitted/admit/Axiom/Parameter/... anywhere under coq/; re-run the property file and compare the
     output of every `Print Assumptions` with the allow-list;
  3. build the Rust harness against the *current working tree* of /repo (feature `verif`);
  4. run the implementation on generated inputs, print inputs and outputs as Gallina terms, evaluate the model and
     the executable specification predicates inside Coq (vm_compute), parse the result codes;
  5. classify, consult known_findings.json, write evidence/<id>.json and, on violation, replays/<id>-*.json.
"""
import fcntl
import json
import os
import re
import subprocess
import sys
import time
from concurrent.futures import ThreadPoolExecutor

VERIF = os.path.dirname(os.path.dirname(os.path.abspath(__file__)))
REPO = os.environ.get("VERIF_REPO", "/repo")
COQ = os.path.join(VERIF, "coq")
WORK = os.path.join(VERIF, "work")
TARGET = os.path.join(VERIF, "target")
HARNESS = os.path.join(VERIF, "harness")
VH = os.path.join(TARGET, "debug", "vh")
VH_REL = os.path.join(TARGET, "release", "vh")
COQ_DIRS = ["util", "hungarian", "caobab", "engine", "io", "props", "corr", "gen"]
QFLAGS = []
for d in COQ_DIRS:
    QFLAGS += ["-Q", os.path.join(COQ, d), ""]
COQ_WARN = ["-w", "-notation-overridden,-deprecated-hint-without-locality,-deprecated-instance-without-locality"]

FLOCQ_AXIOMS = {
    "ClassicalDedekindReals.sig_not_dec",
    "ClassicalDedekindReals.sig_forall_dec",
    "FunctionalExtensionality.functional_extensionality_dep",
    "Classical_Prop.classic",
}

TRUSTED_BASE_COMMON = [
    "Coq 8.16.1 kernel incl. its vm_compute machine (no native_compute); coqchk re-check in the thorough tier",
    "no axioms declared by this development; allow-list per property is compared with Print Assumptions on every run",
    "hand-written Gallina model of the Rust code (modelled, not verified); its faithfulness rests on the differential "
    "correspondence run of this check (generator quality bounds it)",
    "the Rust harness (generators, Gallina printers), bin/check.py classification logic, bin/extract_consts.py",
    "rustc/cargo, serde_json, ndarray, clap, std (not modelled)",
]


class Violation(Exception):
    def __init__(self, what, replay, no_input=False):
        super().__init__(what)
        self.what = what
        self.replay = replay
        self.no_input = no_input


def log(*a):
    print(*a, file=sys.stderr, flush=True)


def run(cmd, cwd=None, timeout=1800, env=None, check=False, input=None):
    e = dict(os.environ)
    e.update({"CARGO_NET_OFFLINE": "true", "CARGO_TARGET_DIR": TARGET})
    if env:
        e.update(env)
    t0 = time.time()
    try:
        p = subprocess.run(cmd, cwd=cwd, env=e, stdout=subprocess.PIPE, stderr=subprocess.PIPE, timeout=timeout,
                           input=input)
        rc, out, err = p.returncode, p.stdout.decode("utf-8", "replace"), p.stderr.decode("utf-8", "replace")
    except subprocess.TimeoutExpired as ex:
        rc, out, err = 124, (ex.stdout or b"").decode("utf-8", "replace"), "TIMEOUT after %ss" % timeout
    if check and rc != 0:
        raise RuntimeError("command failed (%s): %s\n%s\n%s" % (rc, " ".join(map(str, cmd)), out[-3000:], err[-3000:]))
    return rc, out, err, time.time() - t0


class Lock:
    """serialises builds (make / cargo) between concurrently running checks"""

    def __init__(self, name):
        os.makedirs(WORK, exist_ok=True)
        self.path = os.path.join(WORK, "." + name + ".lock")

    def __enter__(self):
        self.f = open(self.path, "w")
        fcntl.flock(self.f, fcntl.LOCK_EX)
        return self

    def __exit__(self, *a):
        fcntl.flock(self.f, fcntl.LOCK_UN)
        self.f.close()


# ------------------------------------------------------------------------------------------------ Coq side

def coq_files_in_project():
    files = []
    for line in open(os.path.join(COQ, "_CoqProject")):
        line = line.strip()
        if line.endswith(".v"):
            files.append(line)
    return files


def hygiene():
    """no Admitted / admit / Axiom / Parameter / Conjecture / guard switches anywhere in the development"""
    bad = []
    pat = re.compile(r"\b(Admitted|admit|Axiom|Axioms|Parameter|Parameters|Conjecture|Hypothesis|Hypotheses|Variable|Variables|"
                     r"Admit Obligations|bypass_check|type-in-type|impredicative-set)\b|Unset\s+Guard|Unset\s+Positivity|"
                     r"Unset\s+Universe")
    for rel in coq_files_in_project():
        path = os.path.join(COQ, rel)
        depth = 0  # section nesting: Variable/Hypothesis are allowed inside sections only
        text = open(path).read()
        text_nc = strip_comments(text)
        for ln, line in enumerate(text_nc.split("\n"), 1):
            s = line.strip()
            if re.match(r"^Section\s+\w+", s):
                depth += 1
            elif re.match(r"^End\s+\w+", s) and depth > 0:
                depth -= 1
            for m in pat.finditer(line):
                w = m.group(0)
                if w in ("Variable", "Variables", "Hypothesis", "Hypotheses") and depth > 0:
                    continue
                bad.append("%s:%d: %s" % (rel, ln, s[:120]))
    for f in ("_CoqProject",):
        t = open(os.path.join(COQ, f)).read()
        if "type-in-type" in t or "impredicative-set" in t or "-vos" in t:
            bad.append("%s: forbidden flag" % f)
    return bad


def strip_comments(text):
    out = []
    depth = 0
    i = 0
    instr = False
    while i < len(text):
        if not instr and text.startswith("(*", i):
            depth += 1
            i += 2
            continue
        if not instr and depth > 0 and text.startswith("*)", i):
            depth -= 1
            i += 2
            continue
        c = text[i]
        if depth == 0:
            if c == '"':
                instr = not instr
            out.append(c)
        elif c == "\n":
            out.append(c)
        i += 1
    return "".join(out)


CONSTS_ERROR = [None]
# which part of the model a constant / type alias of the Rust sources belongs to (prefixes of project files)
CONST_AREAS = [(("LARGE_LABEL", "Label = i32", "EdgeWeight = i32", "Score = u32"), ("hungarian/",)),
               (("WEIGHT_OFFSET", "INSTRUCTOR_SCORE", "edge_weight", "MIN_K", "MAX_NTOK", "MAX_N"), ("caobab/",)),
               (("MINIMUM_EXPORT_VERSION", "MAXIMUM_EXPORT_VERSION", "OUTPUT_EXPORT_VERSION", "default sizes"), ("io/Cde", "io/Json")),
               (("simple output",), ("io/Simple", "io/Listing"))]


def consts_error_relevant(msg, cone):
    """a constant that can no longer be extracted breaks the tie of every property whose theorems depend on the generated file or on the
    part of the model the constant belongs to"""
    if os.path.normpath("gen/Consts.v") in cone:
        return True
    for names, prefixes in CONST_AREAS:
        if any(("cannot find " + n) in msg for n in names):
            return any(f.startswith(p) for f in cone for p in prefixes)
    return True


def regenerate_consts():
    """the translated part of the model.  When a constant can no longer be found in the Rust sources the tie is broken: the previous
    coq/gen/Consts.v (committed) is kept so that the development still builds and the streams can search for a failing input; coq_side
    then raises BrokenProof, and the driver reports the violation with the failing input if one is found (no-failing-input-found otherwise)"""
    rc, out, err, _ = run([sys.executable, os.path.join(VERIF, "bin", "extract_consts.py")], timeout=60)
    CONSTS_ERROR[0] = None
    if rc != 0:
        CONSTS_ERROR[0] = "translator bin/extract_consts.py: constants could not be extracted from /repo (the model keeps the last " \
                          "extracted values): " + (out + err)[-500:].strip()


def coq_make(targets=None):
    """incremental full .vo build (never -vos); returns (ok, log)"""
    with Lock("coq"):
        regenerate_consts()
        mk = os.path.join(COQ, "Makefile")
        if (not os.path.exists(mk)) or os.path.getmtime(mk) < os.path.getmtime(os.path.join(COQ, "_CoqProject")):
            run(["coq_makefile", "-f", "_CoqProject", "-o", "Makefile"], cwd=COQ, check=True)
        cmd = ["make", "-j16"] + (targets or [])
        rc, out, err, dt = run(cmd, cwd=COQ, timeout=1200)
        return rc == 0, out + err


def dep_cone(rel):
    """transitive dependencies (project-relative .v paths) of a project file, via the .d files coq_makefile keeps"""
    rc, out, err, _ = run(["coqdep", "-f", "_CoqProject"], cwd=COQ, timeout=120)
    deps = {}
    for line in out.split("\n"):
        if ":" not in line:
            continue
        lhs, rhs = line.split(":", 1)
        tgt = [x for x in lhs.split() if x.endswith(".vo")]
        if not tgt:
            continue
        v = tgt[0][:-1]
        ds = [x[:-1] for x in rhs.split() if x.endswith(".vo") and not x.startswith("/")]
        deps[os.path.normpath(v)] = [os.path.normpath(d) for d in ds]
    seen = set()
    todo = [os.path.normpath(rel)]
    while todo:
        x = todo.pop()
        if x in seen:
            continue
        seen.add(x)
        todo += deps.get(x, [])
    return sorted(seen)


STMT = re.compile(r"^\s*(Theorem|Lemma|Corollary|Example|Fact|Remark|Proposition)\s+([A-Za-z0-9_']+)", re.M)


def count_obligations(cone):
    n = 0
    names = []
    for rel in cone:
        text = strip_comments(open(os.path.join(COQ, rel)).read())
        for m in STMT.finditer(text):
            n += 1
            names.append(m.group(2))
    return n, names


def check_props(pid, allow=()):
    """re-runs props/<pid>.v, returns dict with assumptions per Print Assumptions; raises Violation on failure"""
    rel = "props/%s.v" % pid
    rc, out, err, dt = run(["coqc"] + COQ_WARN + QFLAGS + ["-o", os.path.join(WORK, pid, pid + ".vo"), os.path.join(COQ, rel)],
                           cwd=COQ, timeout=900)
    if rc != 0:
        raise BrokenProof("props/%s.v does not check: %s" % (pid, (out + err)[-1500:]))
    # parse Print Assumptions blocks
    axioms = set()
    closed = 0
    blocks = 0
    lines = out.split("\n")
    i = 0
    while i < len(lines):
        l = lines[i]
        if l.startswith("Closed under the global context"):
            closed += 1
            blocks += 1
        elif l.startswith("Axioms:"):
            blocks += 1
            i += 1
            while i < len(lines) and (lines[i].startswith(" ") or (":" in lines[i] and not lines[i].startswith("Closed")
                                                                 and not lines[i].startswith("Axioms:"))):
                m = re.match(r"^([A-Za-z0-9_.']+)\s*:", lines[i])
                if m:
                    axioms.add(m.group(1))
                i += 1
            continue
        i += 1
    text = strip_comments(open(os.path.join(COQ, rel)).read())
    n_pa = len(re.findall(r"Print Assumptions", text))
    if blocks != n_pa or n_pa == 0:
        raise BrokenProof("props/%s.v: %d Print Assumptions commands but %d results" % (pid, n_pa, blocks))
    extra = axioms - set(allow)
    if extra:
        raise BrokenProof("props/%s.v depends on axioms outside the allow-list: %s" % (pid, sorted(extra)))
    theorems = [m.group(2) for m in STMT.finditer(text)]
    return {"axioms": sorted(axioms), "closed": closed, "print_assumptions": n_pa, "theorems": theorems,
            "checks_pinned": len(re.findall(r"^Check\s", text, re.M))}


STDLIB_AXIOMS_OK = {
    # axioms declared by the standard library itself (Flocq's real-number development loads them); named in the trusted base
    "Coq.Reals.ClassicalDedekindReals.sig_not_dec", "Coq.Reals.ClassicalDedekindReals.sig_forall_dec",
    "Coq.Logic.FunctionalExtensionality.functional_extensionality_dep", "Coq.Logic.Classical_Prop.classic",
}


def coqchk_props(pid, timeout=3000):
    """thorough tier: the independent checker coqchk re-checks props/<pid>.vo and everything it depends on; returns the context summary"""
    rc, out, err, dt = run(["coqchk", "-silent", "-o"] + QFLAGS + [pid], cwd=COQ, timeout=timeout)
    text = out + err
    if rc != 0:
        raise BrokenProof("coqchk rejects props/%s.vo or a dependency: %s" % (pid, text[-1500:]))
    summary = {}
    cur = None
    for l in text.split("\n"):
        m = re.match(r"^\* ([^:]+):\s*(.*)$", l)
        if m:
            cur = m.group(1).strip()
            summary[cur] = [m.group(2).strip()] if m.group(2).strip() else []
        elif cur and l.startswith("  ") and l.strip():
            summary[cur].append(l.strip())
    axioms = [a for a in summary.get("Axioms", []) if a != "<none>"]
    names = set(re.sub(r"\s*:.*$", "", a) for a in axioms)
    bad = sorted(names - STDLIB_AXIOMS_OK)
    if bad:
        raise BrokenProof("coqchk: axioms outside the standard library's own in the closure of props/%s.vo: %s" % (pid, bad))
    for k in ("Constants/Inductives relying on type-in-type", "Constants/Inductives relying on unsafe (co)fixpoints",
              "Inductives whose positivity is assumed"):
        v = [x for x in summary.get(k, []) if x != "<none>"]
        if v:
            raise BrokenProof("coqchk: %s: %s" % (k, v[:5]))
    if "Axioms" not in summary:
        raise BrokenProof("coqchk printed no context summary for %s: %s" % (pid, text[-500:]))
    return {"coqchk_axioms": sorted(names), "coqchk_seconds": round(dt, 1)}


class BrokenProof(Exception):
    pass


def coq_side(pid, allow=()):
    """steps 1-2; returns info for the evidence file; raises BrokenProof"""
    os.makedirs(os.path.join(WORK, pid), exist_ok=True)
    bad = hygiene()
    if bad:
        raise BrokenProof("hygiene: " + "; ".join(bad[:5]))
    ok, mlog = coq_make()
    if not ok:
        # which file failed?
        m = re.findall(r'File "\./([^"]+)", line (\d+)', mlog)
        cone = dep_cone("props/%s.v" % pid)
        failed = [f for f, _ in m]
        relevant = [f for f in failed if os.path.normpath(f) in cone]
        if relevant or not failed:
            raise BrokenProof("Coq development does not build: %s\n%s" % (relevant or "?", mlog[-1500:]))
        # a failure outside this property's cone: build just the cone
        ok2, mlog2 = coq_make([c + "o" for c in cone])
        if not ok2:
            raise BrokenProof("Coq development does not build: %s" % mlog2[-1500:])
    info = check_props(pid, allow)
    cone = dep_cone("props/%s.v" % pid)
    n, names = count_obligations(cone)
    info["cone"] = cone
    info["obligations"] = n
    if CONSTS_ERROR[0] and consts_error_relevant(CONSTS_ERROR[0], cone):
        raise BrokenProof(CONSTS_ERROR[0])
    return info


# ------------------------------------------------------------------------------------------------ Rust side

def build_harness(release=False):
    with Lock("cargo"):
        lock_src = os.path.join(REPO, "Cargo.lock")
        lock_dst = os.path.join(HARNESS, "Cargo.lock")
        try:
            if (not os.path.exists(lock_dst)) or os.path.getmtime(lock_dst) < os.path.getmtime(lock_src):
                open(lock_dst, "w").write(open(lock_src).read())
        except OSError:
            pass
        cmd = ["cargo", "build", "--offline", "--quiet"] + (["--release"] if release else [])
        hdir, env = HARNESS, None
        if os.path.realpath(REPO) != "/repo":
            # development aid (VERIF_REPO=<another checkout>, e.g. a scratch worktree with a seeded change): the harness manifest names /repo,
            # so a copy of the crate with the other path is built into the same target directory.  The registered checks never set VERIF_REPO.
            import shutil
            hdir = os.path.join(WORK, "harness_alt")
            shutil.rmtree(hdir, ignore_errors=True)
            shutil.copytree(HARNESS, hdir, ignore=shutil.ignore_patterns("target"))
            mf = os.path.join(hdir, "Cargo.toml")
            txt = open(mf).read().replace('path = "/repo"', 'path = "%s"' % REPO)
            open(mf, "w").write(txt)
            env = {"CARGO_TARGET_DIR": TARGET}
        rc, out, err, dt = run(cmd, cwd=hdir, timeout=1500, env=env)
        if rc != 0:
            raise BrokenBuild("harness does not build against /repo (feature verif): " + err[-2000:])
        # the real binary, built from the same tree (without the feature)
        return dt


def build_cli(release=False):
    with Lock("cargo"):
        cmd = ["cargo", "build", "--offline", "--quiet"] + (["--release"] if release else [])
        rc, out, err, dt = run(cmd, cwd=REPO, timeout=1500, env={"CARGO_TARGET_DIR": os.path.join(TARGET, "cli")})
        if rc != 0:
            raise BrokenBuild("cdecao does not build: " + err[-2000:])
    return os.path.join(TARGET, "cli", "release" if release else "debug", "cdecao")


class BrokenBuild(Exception):
    pass


def vh(args, timeout=1200, release=False, env=None):
    rc, out, err, dt = run([VH_REL if release else VH] + [str(a) for a in args], timeout=timeout, env=env)
    if rc != 0:
        raise RuntimeError("harness failed: vh %s\n%s\n%s" % (" ".join(map(str, args)), out[-2000:], err[-3000:]))
    last = [l for l in out.strip().split("\n") if l.strip()]
    try:
        return json.loads(last[-1]) if last else {}
    except Exception:
        return {"raw": out[-2000:]}


NUM = re.compile(r"(\d+)%N")


def coqc_cases(path, timeout=1500):
    """evaluates one generated cases file; returns the list of result codes (ints)"""
    rc, out, err, dt = run(["coqc", "-noglob"] + COQ_WARN + QFLAGS + ["-o", path + "o", path], cwd=os.path.dirname(path),
                           timeout=timeout)
    if rc != 0:
        raise RuntimeError("coqc failed on %s: %s" % (path, (out + err)[-2000:]))
    # the printed term is `= [c1; c2; ...] : list N`, possibly several Evals
    codes = []
    for blk in re.findall(r"=\s*\[(.*?)\]\s*:\s*list N", out, re.S):
        codes.append([int(x) for x in NUM.findall(blk)])
    if not codes:
        if re.search(r"=\s*\[\s*\]", out):
            return [[]]
        raise RuntimeError("no result list in coqc output of %s: %s" % (path, out[-500:]))
    return codes


def run_shards(paths, timeout=1500, jobs=16):
    with ThreadPoolExecutor(max_workers=jobs) as ex:
        return list(ex.map(lambda p: coqc_cases(p, timeout), paths))


# ------------------------------------------------------------------------------------------------ results

def load_known():
    p = os.path.join(VERIF, "known_findings.json")
    if os.path.exists(p):
        return json.load(open(p))
    return {"known": [], "fixed": []}


def write_replay(pid, seed, n, obj):
    os.makedirs(os.path.join(VERIF, "replays"), exist_ok=True)
    path = os.path.join(VERIF, "replays", "%s-%s-%d.json" % (pid, seed, n))
    json.dump(obj, open(path, "w"), indent=1, default=str)
    return path


def write_evidence(pid, tier, seed, coverage, wall, violations, assumptions):
    os.makedirs(os.path.join(VERIF, "evidence"), exist_ok=True)
    ev = {"property_id": pid, "tier": tier, "seed": int(seed), "level": "proof", "coverage": coverage,
          "assumptions": assumptions, "wall_s": round(wall, 2), "violations": int(violations)}
    json.dump(ev, open(os.path.join(VERIF, "evidence", pid + ".json"), "w"), indent=1, default=str)


def clean_work(pid):
    d = os.path.join(WORK, pid)
    os.makedirs(d, exist_ok=True)
    for f in os.listdir(d):
        if f.startswith("cases_") or f.endswith(".glob") or f.endswith(".vo") or f.endswith(".vok") or f.endswith(".vos"):
            try:
                os.remove(os.path.join(d, f))
            except OSError:
                pass
    return d
