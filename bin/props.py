"""Per-property correspondence logic.  Each entry of REGISTRY has
   run(ctx, search)  -> {"coverage": {...}, "violations": [(what, replay, no_input)], "known": [lines]}
   replay(ctx, path) -> same, for one recorded case
"""
import glob
import json
import re
import os
import time
from collections import Counter

import vlib
import clirun
import faults
import cde
import copy
import random
from clirun import CLI
from vlib import log, write_replay

BIT_AGREE, BIT_SPEC, BIT_CLASS = 1, 2, 4


class Ctx:
    def __init__(self, pid, tier, seed):
        self.pid, self.tier, self.seed = pid, tier, seed
        self.work = vlib.clean_work(pid)
        self.nrep = 0

    def replay(self, obj):
        self.nrep += 1
        obj = dict(obj)
        obj.setdefault("property", self.pid)
        obj.setdefault("seed", self.seed)
        obj.setdefault("replay_cmd", "python3 /verif/bin/check.py %s --replay <this file>" % self.pid)
        return write_replay(self.pid, self.seed, self.nrep, obj)


def eval_bitcases(ctx, sub, args, prefix, timeout=1500, env=None):
    """runs `vh <sub> args --out work`, evaluates all cases_<prefix>_*.v, returns (harness summary, [case dicts])"""
    for f in glob.glob(os.path.join(ctx.work, "cases_%s_*" % prefix)):
        os.remove(f)
    t0 = time.time()
    summary = vlib.vh([sub] + args + ["--out", ctx.work], env=env)
    t1 = time.time()
    paths = sorted(glob.glob(os.path.join(ctx.work, "cases_%s_*.v" % prefix)))
    results = vlib.run_shards(paths, timeout=timeout)
    cases = []
    for p, codes in zip(paths, results):
        meta = json.load(open(p[:-2] + ".json"))
        flat = [c for blk in codes for c in blk]
        if len(flat) != len(meta):
            raise RuntimeError("result count mismatch in %s: %d codes, %d cases" % (p, len(flat), len(meta)))
        for i, (c, m) in enumerate(zip(flat, meta)):
            cases.append({"code": c, "meta": m, "file": os.path.basename(p), "index": i})
    summary["_harness_s"] = round(t1 - t0, 2)
    summary["_coq_s"] = round(time.time() - t1, 2)
    return summary, cases


def classify(ctx, cases, what_spec, what_corr, known_pred=None, max_report=3):
    """generic classification of bit-coded cases"""
    viol, known, disagree = [], [], []
    for c in cases:
        if not c["code"] & BIT_SPEC:
            k = known_pred(c) if known_pred else None
            if k:
                known.append(k)
                continue
            viol.append(c)
        elif not c["code"] & BIT_AGREE:
            disagree.append(c)
    out = []
    for c in viol[:max_report]:
        rp = ctx.replay({"kind": "failing-input", "what": what_spec, "case": c["meta"], "code": c["code"],
                         "cases_file": c["file"], "index": c["index"]})
        out.append((what_spec + " fails on " + json.dumps(c["meta"])[:160], rp, False))
    return out, sorted(set(known)), disagree, viol


# =============================================================================================== C20

def c20_run(ctx, search=False):
    max_n = 11 if ctx.tier == "quick" else 16
    shards = 8 if ctx.tier == "quick" else 16
    summary, cases = eval_bitcases(ctx, "sel", ["--max-n", max_n, "--shards", shards], "sel")
    # larger n: the first steps of every (n,k) up to n = 18 (what room branching can request) and binom alone for all n <= 80 and larger n at the ends / middle
    s_p, cases_p = eval_bitcases(ctx, "selp", ["--min-n", max_n + 1, "--max-n", 18, "--steps", 40 if ctx.tier == "quick" else 400], "selp")
    s_b, cases_b = eval_bitcases(ctx, "selp", ["--min-n", 1, "--max-n", 0], "binom")
    cases = cases + cases_p + cases_b
    viol, known, disagree, _ = classify(
        ctx, cases, "k-subset enumeration / size_hint / binom exactness (spec predicate on the implementation's output)",
        "SelModel vs util.rs")
    # decided on the implementation's behaviour alone: the enumerator must not panic for ANY (n, k) (k = 0 and k > n yield nothing), and the
    # number it reports before each step is exact (both bounds of size_hint)
    for c in cases:
        m = c["meta"]
        w = None
        if m.get("panicked"):
            w = "C20: the k-subset enumerator panics for n = %s, k = %s (it must yield %s)" % (m["n"], m["k"], "nothing" if (m["k"] == 0 or m["k"] > m["n"]) else "every selection once")
        elif m.get("hint_bounds_equal") is False:
            w = "C20: size_hint reports an upper bound different from the exact number of selections still to come (n = %s, k = %s)" % (m["n"], m["k"])
        if w and len([v for v in viol if v[0].startswith("C20:")]) < 2:
            viol.append((w, ctx.replay({"kind": "failing-input", "what": w, "case": m}), False))
    if (disagree or search) and not viol:
        # search for a failing input with the larger bound
        if ctx.tier == "quick":
            s2, cases2 = eval_bitcases(ctx, "sel", ["--max-n", 13, "--shards", 16], "sel")
            v2, _, _, _ = classify(ctx, cases2, "k-subset enumeration exactness", "SelModel vs util.rs")
            viol += v2
            cases = cases + cases2
        if disagree and not viol:
            c = disagree[0]
            rp = ctx.replay({"kind": "no-failing-input-found", "broken": "correspondence CorrSel.check_sel (model SelModel.it_run / "
                             "binom64 against util.rs iter_selections / size_hint / binom): outputs differ",
                             "first_disagreeing_case": c["meta"], "code": c["code"], "cases_file": c["file"], "index": c["index"],
                             "disagreements": len(disagree)})
            viol.append(("model and implementation of the k-subset iterator disagree on (n,k)=(%s,%s)" % (
                c["meta"]["n"], c["meta"]["k"]), rp, True))
    nontrivial = {(c["meta"]["n"], c["meta"]["k"], c["meta"].get("mode", "full")) for c in cases if c["code"] & BIT_CLASS}
    cov = {
        "evaluations": len(cases),
        "distinct_nontrivial": len(nontrivial),
        "rule": "every (n,k) with 0 <= n <= %d and 0 <= k <= n+2 run on the real iterator to exhaustion (values, size_hint before every "
                "next and after the final None, binom); for %d <= n <= 18 the first steps of every (n,k); binom alone for all n <= 80, k <= n+1 and for "
                "n = 100, 128, 200, 500 at the ends and around the middle (counts beyond usize: saturation); non-trivial = distinct (n,k,mode) with 1 <= k <= n" % (max_n, max_n + 1),
        "exhaustive": True,
        "input_distribution": {"max_n": max_n, "index_vectors_yielded": summary.get("total_vectors"),
                               "cases_in_class_1<=k<=n": len(nontrivial), "cases_outside_class": len(cases) - len(nontrivial)},
        "disagreements_model_vs_impl": len(disagree),
        "samples": [c["meta"] for c in cases[:3]] + [c["meta"] for c in cases if c["meta"]["n"] == 5 and c["meta"]["k"] == 2][:1],
        "timing": {"harness_s": summary.get("_harness_s"), "coq_eval_s": summary.get("_coq_s")},
    }
    return {"coverage": cov, "violations": viol, "known": []}


def c20_replay(ctx, path):
    r = json.load(open(path))
    n = r.get("case", r.get("first_disagreeing_case", {})).get("n", 8)
    summary, cases = eval_bitcases(ctx, "sel", ["--max-n", max(n, 1), "--shards", 4], "sel")
    viol, known, disagree, _ = classify(ctx, cases, "k-subset enumeration exactness", "SelModel vs util.rs")
    for c in disagree[:1]:
        rp = ctx.replay({"kind": "no-failing-input-found", "broken": "correspondence CorrSel.check_sel", "first_disagreeing_case": c["meta"]})
        viol.append(("model and implementation disagree", rp, True))
    return {"coverage": {"evaluations": len(cases), "distinct_nontrivial": len(cases), "samples": [c["meta"] for c in cases[:2]]},
            "violations": viol, "known": []}


# =============================================================================================== C07

def hung_stats(cases):
    h = Counter()
    for c in cases:
        code = c["code"]
        h["in_class"] += 1 if code & 4 else 0
        h["certificate_on_impl_labels_ok"] += 1 if code & 8 else 0
        h["model_overflow"] += 1 if code & 16 else 0
        h["model_stuck(no perfect matching exists)"] += 1 if code & 32 else 0
    return dict(h)


def c07_run(ctx, search=False):
    if ctx.tier == "quick":
        plan = [("a", 1200, 12, None), ("b", 60, 28, None), ("c", 32, 128, "64,63,65,64,128,64,127,64")]
    else:
        plan = [("a", 16000, 14, None), ("b", 1500, 40, None), ("c", 64, 128, "64,63,65,128,64,127,64,129")]
    cases, summaries = [], []
    for i, (tag, count, dim, exact) in enumerate(plan):
        # batch c: column counts at and next to the multiples of 64 (the sizes at which packed sets of columns have no spare bits)
        s, cs = eval_bitcases(ctx, "hung", ["--seed", ctx.seed + i, "--count", count, "--max-dim", dim, "--shards", 16]
                              + (["--exact-ny", exact] if exact else []), "hung")
        summaries.append(s)
        cases += cs
    viol, known, disagree, _ = classify(ctx, cases, "maximum-weight constrained perfect matching (perfect, allowed, score = weight = optimum)",
                                        "HP1.hungarian vs hungarian.rs")
    # a case of the class on which the certificate fails although the score is optimal is reported as correspondence break
    if (disagree or search) and not viol:
        s, cs = eval_bitcases(ctx, "hung", ["--seed", ctx.seed + 77, "--count", 4000, "--max-dim", 10, "--shards", 16], "hung")
        v2, _, d2, _ = classify(ctx, cs, "maximum-weight constrained perfect matching", "HP1.hungarian vs hungarian.rs")
        viol += v2
        cases += cs
        disagree += d2
        if disagree and not viol:
            c = min(disagree, key=lambda c: len(json.dumps(c["meta"])))
            rp = ctx.replay({"kind": "no-failing-input-found", "broken": "correspondence CorrHung.check_hung (model HP1.hungarian against "
                             "hungarian.rs: matching, score and final labels must be equal; a panic must correspond to Overflow/Stuck)",
                             "first_disagreeing_case": c["meta"], "code": c["code"], "disagreements": len(disagree)})
            viol.append(("model and implementation of the matching routine disagree (%d cases)" % len(disagree), rp, True))
    distinct = {json.dumps([c["meta"][k] for k in ("w", "dx", "my", "sx", "sy")]) for c in cases if c["code"] & BIT_CLASS}
    cov = {
        "evaluations": len(cases), "distinct_nontrivial": len(distinct),
        "rule": "seeded generator of masked weight matrices (styles zero/binary/ties/small/large/caobab blocks, non-square with equal "
                "active counts, dummy rows, mandatory columns, ~8% without any perfect allowed matching); non-trivial = distinct inputs "
                "that satisfy the theorem's precondition (a perfect allowed matching exists)",
        "input_distribution": {"per_batch": summaries, "outcomes": hung_stats(cases)},
        "disagreements_model_vs_impl": len(disagree),
        "samples": [c["meta"] for c in cases[3:5]],
    }
    return {"coverage": cov, "violations": viol, "known": []}


def c07_replay(ctx, path):
    r = json.load(open(path))
    case = r.get("case") or r.get("first_disagreeing_case")
    tmp = os.path.join(ctx.work, "replay_in.json")
    json.dump([case], open(tmp, "w"))
    s, cs = eval_bitcases(ctx, "hung", ["--replay", tmp, "--shards", 1], "hung")
    viol, known, disagree, _ = classify(ctx, cs, "maximum-weight constrained perfect matching", "HP1.hungarian vs hungarian.rs")
    for c in disagree[:1]:
        rp = ctx.replay({"kind": "no-failing-input-found", "broken": "correspondence CorrHung.check_hung", "first_disagreeing_case": c["meta"]})
        viol.append(("model and implementation disagree", rp, True))
    return {"coverage": {"evaluations": len(cs), "distinct_nontrivial": len(cs), "samples": [c["meta"] for c in cs[:1]]},
            "violations": viol, "known": []}



# =============================================================================================== generic stream-based checks
# Streams (harness sub-command -> Coq check function): node (CorrNode.check_node), solve (CorrSolve.check_solve), tree (CorrTree.check_tree).

NODE = {"agree": 1, "hard": 2, "class": 4, "nosol": 8, "inf": 16, "feas": 32, "impl_panic": 64, "score": 128, "housed": 256, "hardc": 512,
        "model_panic": 1024, "kids_ok": 2048}
SOLVE = {"accepted": 1, "stopped": 2, "result": 4, "stats": 8, "hard": 16, "class": 32, "heap": 64, "outcome": 128, "score": 256, "housed": 512,
         "quality": 1024, "tc": 2048, "found": 4096, "nobetter": 8192, "nonbinding": 16384, "returned": 32768}
TREE = {"accepted": 1, "stopped": 2, "result": 4, "stats": 8, "c09": 16, "class": 32, "heap": 64, "outcome": 128, "haspanic": 256, "returned": 512,
        "self": 1024}


def has(c, table, *names):
    return all(c["code"] & table[n] for n in names)


def small(meta):
    return len(json.dumps(meta))


def report_failing(ctx, cases, what, limit=3):
    out = []
    for c in sorted(cases, key=lambda c: small(c["meta"]))[:limit]:
        rp = ctx.replay({"kind": "failing-input", "what": what, "stream": c.get("stream"), "case": c["meta"], "code": c["code"]})
        out.append((what + ": " + json.dumps(c["meta"])[:200], rp, False))
    return out


def report_disagree(ctx, cases, broken):
    c = min(cases, key=lambda c: small(c["meta"]))
    rp = ctx.replay({"kind": "no-failing-input-found", "broken": broken, "stream": c.get("stream"), "first_disagreeing_case": c["meta"],
                     "code": c["code"], "disagreements": len(cases)})
    return [("%s (%d cases)" % (broken, len(cases)), rp, True)]


def run_stream(ctx, sub, args, prefix, stream):
    s, cases = eval_bitcases(ctx, sub, args, prefix)
    for c in cases:
        c["stream"] = stream
    return s, cases


def node_stream(ctx, seed, count, rooms=2, max_c=6, max_p=9):
    return run_stream(ctx, "node", ["--seed", seed, "--count", count, "--rooms", rooms, "--max-c", max_c, "--max-p", max_p, "--shards", 16],
                      "node", "node")


def solve_stream(ctx, seed, count, rooms=2, scheds=3, c17=0, max_c=5, max_p=8, brute=2000000):
    return run_stream(ctx, "solve", ["--seed", seed, "--count", count, "--rooms", rooms, "--scheds", scheds, "--c17", c17, "--max-c", max_c,
                                     "--max-p", max_p, "--brute-limit", brute, "--shards", 16], "solve", "solve")


def tree_stream(ctx, seed, trees, panics=0, dfs=200, scheds=6, max_nodes=10):
    return run_stream(ctx, "tree", ["--seed", seed, "--trees", trees, "--panics", panics, "--dfs", dfs, "--scheds", scheds,
                                    "--max-nodes", max_nodes, "--shards", 16], "tree", "tree")


NODE_AGREE_WHAT = "correspondence CorrNode.check_node: Node.run_full (model of precompute_problem/run_bab_node/check_feasibility/room stage, " \
                  "binary32 via Flocq) and run_bab_node of caobab.rs give different results (kind, score, assignment or children)"
SOLVE_AGREE_WHAT = "correspondence CorrSolve.check_solve: the recorded history of caobab::solve (bab.rs under the scheduler shim) is not a run of " \
                   "the model EngP2/EngExec over Node.run_full, or result/statistics differ from the final model state"
TREE_AGREE_WHAT = "correspondence CorrTree.check_tree: the recorded history of bab::solve on a synthetic tree is not a run of the model " \
                  "EngP2/EngExec, or result/statistics/outcome differ from the final model state"


def node_disagree(cases):
    return [c for c in cases if c["stream"] == "node" and not has(c, NODE, "agree")]


def solve_disagree(cases):
    return [c for c in cases if c["stream"] == "solve" and not (has(c, SOLVE, "accepted", "stopped", "result", "stats", "heap", "outcome"))]


def tree_disagree(cases):
    return [c for c in cases if c["stream"] == "tree" and not (has(c, TREE, "accepted", "result", "stats", "heap", "outcome")
                                                               and (has(c, TREE, "stopped") or not has(c, TREE, "returned")))]


GATE_AGREE_WHAT = "correspondence CorrGate.check_gate: Rooms.room_sets (model of check_room_feasibility / create_room_constraint_set, binary32 via " \
                  "Flocq) and the implementation give different constraint sets (room stage alone, minimum sizes up to 40)"


def gate_stream(ctx, seed, count):
    return run_stream(ctx, "gate", ["--seed", seed, "--count", count, "--shards", 8], "gate", "gate")


def gate_disagree(cases):
    return [c for c in cases if c["stream"] == "gate" and not (c["code"] & 1)]


ROOMS_AGREE_WHAT = "correspondence CorrRooms.check_rooms: RoomsModel.possible / kind_names and io/rooms.rs give different listings"


def rooms_disagree(cases):
    return [c for c in cases if c["stream"] == "rooms" and (c["code"] & 4) and (c["code"] & 9) != 9]


def hist_codes(cases, table):
    h = Counter()
    for c in cases:
        for k, v in table.items():
            if c["code"] & v:
                h[k] += 1
    return dict(h)


def generic_run(ctx, search, streams_fn, spec_fn, explanation_rule, known_fn=None, extra_fn=None):
    """streams_fn(ctx, scale, seed_offset) -> (summaries, cases); spec_fn(case) -> None | text (specification violated on an implementation output)"""
    scale = 1 if ctx.tier == "quick" else 8
    summaries, cases = streams_fn(ctx, scale, 0)
    viol, known = [], []
    def scan(cs):
        bad, kn = [], []
        for c in cs:
            w = spec_fn(c)
            if w:
                k = known_fn(c, w) if known_fn else None
                if k:
                    kn.append(k)
                else:
                    c["why"] = w
                    bad.append(c)
        return bad, kn
    bad, kn = scan(cases)
    known += kn
    extra_viol = []
    if extra_fn:
        ev, ek = extra_fn(ctx, cases)
        extra_viol += ev
        known += ek
    dis = node_disagree(cases) + solve_disagree(cases) + tree_disagree(cases) + rooms_disagree(cases) + gate_disagree(cases)
    if (dis or search) and not bad and not extra_viol:
        # search stage: more inputs with another seed
        s2, c2 = streams_fn(ctx, 3 * scale, 1000)
        summaries += s2
        b2, k2 = scan(c2)
        bad += b2
        known += k2
        if extra_fn:
            ev, ek = extra_fn(ctx, c2)
            extra_viol += ev
            known += ek
        dis += node_disagree(c2) + solve_disagree(c2) + tree_disagree(c2) + rooms_disagree(c2) + gate_disagree(c2)
        cases += c2
    for w in sorted({c["why"] for c in bad}):
        viol += report_failing(ctx, [c for c in bad if c["why"] == w], w, limit=2)
    viol += extra_viol
    if dis and not viol:
        for stream, what in (("node", NODE_AGREE_WHAT), ("solve", SOLVE_AGREE_WHAT), ("tree", TREE_AGREE_WHAT), ("rooms", ROOMS_AGREE_WHAT),
                             ("gate", GATE_AGREE_WHAT)):
            d = [c for c in dis if c["stream"] == stream]
            if d:
                viol += report_disagree(ctx, d, what)
    per_stream = {}
    for stream, table in (("node", NODE), ("solve", SOLVE), ("tree", TREE)):
        cs = [c for c in cases if c["stream"] == stream]
        if cs:
            per_stream[stream] = {"cases": len(cs), "bits": hist_codes(cs, table)}
    nontrivial = {json.dumps(c["meta"].get("inst", c["meta"].get("tree", c["meta"])), sort_keys=True) + json.dumps(c["meta"].get("node", c["meta"].get("choices")))
                  for c in cases if c["code"] & (NODE["class"] if c["stream"] == "node" else SOLVE["class"] if c["stream"] == "solve" else 1)}
    cli_n = sum(v.get("runs", 0) for k, v in getattr(ctx, "extra_cov", {}).items() if isinstance(v, dict))
    cov = {"evaluations": len(cases) + cli_n, "distinct_nontrivial": len(nontrivial) + cli_n, "rule": explanation_rule,
           "cli_level": getattr(ctx, "extra_cov", None),
           "input_distribution": {"harness": summaries, "per_stream_result_bits": per_stream},
           "disagreements_model_vs_impl": len(dis),
           "samples": [c["meta"] for c in cases[:2]]}
    return {"coverage": cov, "violations": viol, "known": sorted(set(known))}


def generic_replay(ctx, path, spec_fn):
    r = json.load(open(path))
    case = r.get("case") or r.get("first_disagreeing_case")
    stream = r.get("stream", "node")
    tmp = os.path.join(ctx.work, "replay_in.json")
    json.dump([case], open(tmp, "w"))
    if stream == "qual":
        s0, cs = run_stream(ctx, "qual", ["--seed", r.get("seed", ctx.seed) + 2, "--count", 400, "--shards", 8], "qual", "qual")
        bad = [c for c in cs if spec_fn(c)]
        return {"coverage": {"evaluations": len(cs), "distinct_nontrivial": len(cs), "samples": [c["meta"] for c in cs[:1]]},
                "violations": report_failing(ctx, bad, spec_fn(bad[0])) if bad else [], "known": []}
    sub = {"node": "node", "solve": "solve", "tree": "tree"}[stream]
    s, cs = run_stream(ctx, sub, ["--replay", tmp, "--shards", 1], sub, stream)
    viol = []
    bad = [c for c in cs if spec_fn(c)]
    for c in bad:
        viol += report_failing(ctx, [c], spec_fn(c))
    dis = node_disagree(cs) + solve_disagree(cs) + tree_disagree(cs)
    if dis and not viol:
        viol += report_disagree(ctx, dis, {"node": NODE_AGREE_WHAT, "solve": SOLVE_AGREE_WHAT, "tree": TREE_AGREE_WHAT}[stream])
    return {"coverage": {"evaluations": len(cs), "distinct_nontrivial": len(cs), "samples": [c["meta"] for c in cs[:1]],
                         "input_distribution": {"codes": [c["code"] for c in cs]}}, "violations": viol, "known": []}


# ---- specification predicates per property (on implementation outputs, evaluated inside Coq; bits decoded here)

def spec_c01(c):
    if c["stream"] == "node" and has(c, NODE, "class", "feas") and not has(c, NODE, "hard", "hardc"):
        return "C01: a Feasible node result violates the hard constraints (hard_okb evaluated in Coq on the implementation's assignment)"
    if c["stream"] == "solve" and has(c, SOLVE, "class", "found") and not has(c, SOLVE, "hard"):
        return "C01: the assignment returned by caobab::solve violates the hard constraints (hard_okb evaluated in Coq)"
    if c["stream"] == "node" and has(c, NODE, "class", "inf") and not has(c, NODE, "kids_ok"):
        return "C01: a subproblem generates a child that cancels a fixed course / is not well formed (the invariants NoFix / Wf2 of generated " \
               "subproblems, checked on the implementation's own children)"
    if c["stream"] == "gate" and (c["code"] & 2) and not (c["code"] & 4):
        return "C01: the room stage of a well-formed subproblem produces a child that cancels a fixed / enforced course or shrinks a course below " \
               "its minimum size (the invariants NoFix / Wf2 of generated subproblems, checked on the implementation's own constraint sets)"
    return None


def c01_extra(ctx, cases):
    """C01 at CLI level on LARGE instances (a course with a minimum size above 100): what the real binary writes satisfies the hard
    constraints (hard_okb in Coq, no model run needed)"""
    recs = clirun.run_large_family(ctx, vlib.build_cli(), ctx.seed + 41, 6 if ctx.tier == "quick" else 40)
    viol = []
    st = Counter()
    for r in recs:
        st["runs"] += 1
        st["exit_%s" % r["run"]["rc"]] += 1
        w = None
        if r["run"]["timeout"] or r["run"]["rc"] not in (0, 1):
            w = "C01/C10: the program crashes / hangs on a large valid instance (exit %s)" % r["run"]["rc"]
        elif r["run"]["rc"] == 0 and not isinstance(r["out"], tuple):
            w = "C01: exit 0 without a well-formed output file on a large instance (%s)" % (r["out"],)
        elif r["run"]["rc"] == 0 and (r["code"] & CLI["class"]) and not (r["code"] & CLI["hard"]):
            w = "C01: the assignment written for a large instance (a course with a minimum size above 100) violates the hard constraints (hard_okb evaluated in Coq)"
        if w:
            rp = ctx.replay({"kind": "failing-input", "stream": "cli-large", "what": w, "instance_file_content": r["inst"], "threads": r["threads"],
                             "exit": r["run"]["rc"], "output": r["out"] if not isinstance(r["out"], tuple) else {"assignment": r["out"][0], "score": r["out"][1]},
                             "how": "write instance_file_content to a file and run target/cli/debug/cdecao --num-threads N <file> <out>"})
            viol.append((w + ": %d participants, --num-threads %d" % (len(r["inst"]["participants"]), r["threads"]), rp, False))
    ctx.extra_cov = dict(getattr(ctx, "extra_cov", {}) or {}, cli_large=dict(st))
    return viol[:3], []


def spec_c06(c):
    if c["stream"] == "node" and has(c, NODE, "feas") and not has(c, NODE, "housed") and c["meta"]["inst"]["rooms"] is not None:
        return "C06: a Feasible node result cannot be housed (housedb on effective sizes, binary32, evaluated in Coq)"
    if c["stream"] == "solve" and has(c, SOLVE, "found") and not has(c, SOLVE, "housed"):
        return "C06: the assignment returned by caobab::solve with a room list cannot be housed (housedb evaluated in Coq)"
    if c["stream"] == "gate" and (c["code"] & 2) and not (c["code"] & 32):
        return "C06: the room gate (check_room_feasibility) reports no conflict for an assignment that cannot be housed in the given rooms " \
               "(effective sizes in binary32, rank-wise comparison of the descending sorts: housedb evaluated in Coq)"
    return None


def spec_c08(c):
    if c["stream"] == "node" and has(c, NODE, "class", "feas") and not has(c, NODE, "score"):
        return "C08: score of a Feasible node differs from the score recomputed from its assignment (score_of evaluated in Coq)"
    if c["stream"] == "solve" and has(c, SOLVE, "class", "found") and not has(c, SOLVE, "score"):
        return "C08: score returned by caobab::solve differs from the score recomputed from the returned assignment"
    if c["stream"] == "qual" and (c["code"] & 4) and (c["code"] & 3) != 3:
        return "C08: solution_quality / combined_quality differs from the mean penalty (integer numerator and denominator, one binary32 " \
               "division; compared bit for bit in Coq)"
    if c["stream"] == "solve" and has(c, SOLVE, "class", "found") and not has(c, SOLVE, "quality"):
        return "C08: QualityInfo (solution_score / theoretical_max_score / solution_quality / theoretical_max_quality) differs from the " \
               "figures recomputed in Coq (integer numerators, binary32 quotient compared as bit patterns) or maximum < score"
    return None


def spec_c04(c):
    if c["stream"] != "tree":
        return None
    if c["meta"]["outcome"] == 1:
        return "C04: deadlock (no enabled scheduling action while a thread is unfinished) reported by the scheduler shim"
    st = c["meta"].get("stats") or []
    if c["meta"]["outcome"] == 0 and len(st) == 5 and st[0] != st[1] + st[2] + st[3]:
        # directly on the implementation's counters, independent of the model's acceptance of the history
        return "C04: the returned statistics do not add up: %d executed subproblems but %d no-solution + %d infeasible + %d feasible" % tuple(st[:4])
    gen, sol = c["meta"].get("generated_by_node_fn"), c["meta"].get("executions_of_node_fn")
    if c["meta"]["outcome"] == 0 and len(st) == 5 and gen is not None and c["meta"].get("failed_nodes", 0) == 0:
        # the node function of the harness counts what it hands out and how often it runs, independent of history and model
        if st[0] != sol:
            return "C04: %d subproblems were solved (executions of the node function) but the statistics report %d" % (sol, st[0])
        if st[0] + st[4] != gen:
            return "C04: %d subproblems were generated (the root and the children of the executed nodes) but solved + bounded = %d + %d: a " \
                   "subproblem is neither solved nor discarded by bounding exactly once" % (gen, st[0], st[4])
    if has(c, TREE, "accepted", "returned") and not has(c, TREE, "stats"):
        return "C04: returned statistics do not add up / differ from the model's counters (solved = nosol + infeasible + feasible, generated = solved + bounded)"
    return None


def spec_c09(c):
    if c["stream"] != "tree":
        return None
    if has(c, TREE, "class", "returned") and not has(c, TREE, "c09"):
        return "C09: on a bound-consistent tree the engine did not return the maximum feasible score (exhaustive tree evaluation in Coq)"
    if has(c, TREE, "returned") and not has(c, TREE, "self"):
        return "C09: the returned solution is not a feasible node of the tree with the returned score"
    if c["meta"].get("outcome", 0) != 0 and c["meta"].get("failed_nodes", 0) == 0 and not has(c, TREE, "haspanic"):
        return "C09: the engine " + ("deadlocks" if c["meta"]["outcome"] == 1 else "panics") + " on a finite tree none of whose node solvers fails " \
               "(it returns neither the best leaf nor 'nothing')"
    return None


def spec_c19(c):
    if c["stream"] != "tree":
        return None
    if c["meta"]["outcome"] == 1:
        return "C19: deadlock although a node solver failed (remaining workers wait for ever)" if has(c, TREE, "haspanic") else \
               "C19: deadlock reported by the scheduler shim"
    if c["meta"].get("failed_nodes", 0) > 0 and c["meta"]["outcome"] == 0:
        # counted by the harness's node function itself, independent of the recorded history and of the model
        return "C19: a node solver failed (%d failing execution(s)) but solve returned normally (failure not reported)" % c["meta"]["failed_nodes"]
    if has(c, TREE, "accepted") and not has(c, TREE, "outcome"):
        return "C19: a node solver failed but solve returned normally (failure not reported), or a panic without a failing node"
    return None


# ---- CLI level: the real binary on generated instance files

CLI_STATE = {}


def cli_records(ctx, seed, count, variants, rooms_mode=2):
    """builds the binary from /repo's working tree, generates instances, runs the matrix, evaluates check_cli; caches per (seed,count)"""
    key = (seed, count, json.dumps(variants, sort_keys=True), rooms_mode)
    if key in CLI_STATE:
        return CLI_STATE[key]
    binpath = vlib.build_cli()
    d, metas = clirun.gen_instances(ctx, seed, count, rooms_mode=rooms_mode)
    recs = clirun.run_cli_matrix(ctx, binpath, metas, variants)
    texts = []
    for r in recs:
        out = r["out"] if isinstance(r["out"], tuple) else None
        lst = r["listing"] if isinstance(r["listing"], list) else None
        rooms = r["meta"]["inst"]["rooms"]
        texts.append(clirun.g_cli_case(r["meta"], rooms, out, lst))
    codes = clirun.eval_cli_cases(ctx, texts)
    for r, c in zip(recs, codes):
        r["code"] = c
    # text level: the bytes of stdout of every successful --print run against ListingText.print_stage (CorrCliText.check_text)
    trecs = [r for r in recs if r["variant"].get("print") and r["run"]["rc"] == 0 and isinstance(r["out"], tuple)]
    tcodes = clirun.eval_text_cases(ctx, [clirun.g_text_case(r) for r in trecs])
    for r, c in zip(trecs, tcodes):
        r["text_code"] = c
    # document level: the whole JSON value of every output file against WriteDoc.simple_doc (CorrDoc.check_simple_doc)
    drecs = [r for r in recs if r["run"]["rc"] == 0 and isinstance(r.get("out_doc"), dict)]
    dcodes = clirun.eval_doc_cases(ctx, [clirun.g_doc_case(r) for r in drecs])
    for r, c in zip(drecs, dcodes):
        r["doc_code"] = c
    CLI_STATE[key] = (metas, recs)
    return metas, recs


def cli_brief(r):
    return {"args": r["args"], "exit": r["run"]["rc"], "timeout": r["run"]["timeout"], "stderr_tail": r["run"]["stderr"][-600:],
            "instance_file_content": json.load(open(r["meta"]["file"], encoding="utf-8")), "lib_result": r["meta"]["lib"],
            "output": r["out"] if not isinstance(r["out"], tuple) else {"assignment": r["out"][0], "score": r["out"][1]},
            "listing": r["listing"] if isinstance(r["listing"], str) else None, "check_cli_code": r.get("code")}


def cli_violation(ctx, r, what):
    rp = ctx.replay({"kind": "failing-input", "what": what, "stream": "cli", "case": cli_brief(r),
                     "how": "write instance_file_content to a file and run target/cli/debug/cdecao with the listed args"})
    return (what + ": " + " ".join(r["args"][:-2])[:120] + " exit=%s" % r["run"]["rc"], rp, False)


VARIANTS_C10 = [dict(threads=1, rooms="list", print=False, report=True), dict(threads=2, rooms="file", print=True), dict(threads=4, rooms="list", print=True)]


def c10_extra(ctx, cases):
    """the CLI stage on simple-format instances plus a CdE stage: well-formed exports with dense existing assignments (over-booked courses included)
    under the ignore options must end normally"""
    v1, k1 = c10_cli(ctx, cases)
    v2, k2 = e2e_checks(ctx, "C10", ctx.seed + 10, 60 if ctx.tier == "quick" else 500, c11_opts, "C10", cov_key="cli_runs_cde")
    return (v1 + [v for v in v2 if "crashes / hangs" in v[0]])[:4], k1 + k2


def c10_cli(ctx, cases):
    count = 60 if ctx.tier == "quick" else 400
    metas, recs = cli_records(ctx, ctx.seed + 5, count, VARIANTS_C10)
    viol = []
    lib_bad = [m for m in metas if (m["lib_code"] & (1 | 2 | 4 | 8 | 128)) != (1 | 2 | 4 | 8 | 128)]
    stats = Counter()
    for r in recs:
        run, m = r["run"], r["meta"]
        valid = bool(r["code"] & CLI["class"])
        stats["runs"] += 1
        stats["exit_%s" % run["rc"]] += 1
        if m["over_subscribed"]:
            stats["over_subscribed"] += 1
        if not valid:
            stats["invalid_instance_skipped"] += 1
            continue
        w = None
        if run["timeout"]:
            w = "C10: the program hangs (no exit within 120 s) on a valid instance"
        elif "panicked" in run["stderr"] or run["rc"] not in (0, 1):
            w = "C10: the program crashes on a valid instance (exit status %s, stderr: %s)" % (run["rc"], run["stderr"][-160:].replace("\n", " "))
        elif run["rc"] == 0 and not isinstance(r["out"], tuple):
            w = "C10: exit status 0 without a well-formed output file (%s)" % (r["out"],)
        elif run["rc"] == 1 and ("No feasible solution found." not in run["stderr"] or (r["outpath"] and os.path.exists(r["outpath"]))):
            w = "C10: exit status 1 without the 'No feasible solution found.' message, or with an output file"
        elif (run["rc"] == 0) != (m["lib"]["result"] is not None) and not (r["code"] & CLI["tc"]):
            w = "C10/C03: verdict of the binary differs from the verdict of caobab::solve (1 worker) on the same instance"
        if w:
            viol.append(cli_violation(ctx, r, w))
    ctx.extra_cov = {"cli_runs": dict(stats), "lib_histories_not_accepted": len(lib_bad)}
    return viol[:4], []


def c02_cli(ctx, cases):
    """C02 at CLI level: the real binary says 'no feasible solution' exactly when caobab::solve (whose history is validated in Coq) finds none,
    and for instances outside class TC it writes the score caobab::solve returns"""
    count = 60 if ctx.tier == "quick" else 400
    metas, recs = cli_records(ctx, ctx.seed + 5, count, VARIANTS_C10)
    viol = []
    stats = Counter()
    for r in recs:
        run, m = r["run"], r["meta"]
        stats["runs"] += 1
        if not (r["code"] & CLI["class"]) or (r["code"] & CLI["tc"]) or run["timeout"] or run["rc"] not in (0, 1):
            stats["skipped_invalid_or_tc_or_abnormal"] += 1
            continue
        lib = m["lib"]["result"]
        stats["tight_instances"] += 1 if m["inst"].get("style") == "tight" else 0
        w = None
        if run["rc"] == 1 and lib is not None:
            w = "C02: the program reports that no feasible solution exists although caobab::solve finds one (score %s)" % lib["score"]
        elif run["rc"] == 0 and lib is None:
            w = "C02: the program reports a solution although caobab::solve finds none"
        elif run["rc"] == 0 and isinstance(r["out"], tuple) and r["out"][1] != lib["score"]:
            w = "C02: the score written (%s) differs from the optimum caobab::solve returns (%s)" % (r["out"][1], lib["score"])
        else:
            stats["verdicts_compared"] += 1
        if w:
            viol.append(cli_violation(ctx, r, w))
    ctx.extra_cov = {"cli_runs": dict(stats)}
    return viol[:4], []


def cde_rooms_stage(ctx, pid, bit, what):
    """end to end at CdE level with room options: exports -> real binary (--cde, ignore options, factor/offset fields, --rooms / --rooms-file,
    --possible-rooms-field) -> import file; CorrCdeRooms.check_cde_rooms rebuilds the problem with the reader model"""
    import cde
    binpath = vlib.build_cli()
    count = 90 if ctx.tier == "quick" else 500
    recs = cde.e2e_cases(ctx, ctx.seed + 31, count, binpath, rooms=True)
    viol = []
    stats = Counter()
    for r in recs:
        stats["runs"] += 1
        stats["exit_%s" % r["exit"]] += 1
        if r["panicked"] or r["timeout"]:
            viol.append((pid + ": the program crashes / hangs on a CdE export with room options: " + " ".join(r["args"][:-2])[:160],
                         ctx.replay({"kind": "failing-input", "stream": "cde-rooms", "case": {k: r[k] for k in ("args", "exit", "stderr", "export")}}), False))
            continue
        if r.get("rooms_code") is None:
            continue
        stats["import_files_checked"] += 1
        stats["rooms_%s" % r["rooms"]["rooms_arg"][0]] += 1
        if r["rooms"]["field"]:
            stats["with_possible_rooms_field"] += 1
        if r["ignore_assigned"]:
            stats["with_ignore_assigned"] += 1
        c = r["rooms_code"]
        if not (c & 1):
            viol.append((pid + ": the reader model refuses an export the binary solved (CdE rooms stage)",
                         ctx.replay({"kind": "no-failing-input-found", "stream": "cde-rooms", "broken": "CorrCdeRooms.check_cde_rooms: reader model refuses",
                                     "case": {k: r[k] for k in ("args", "exit", "export")}}), True))
        elif r.get("doc_code") is not None and (r["doc_code"] & 1) and (r["doc_code"] & 14) != 14 and (c & bit):
            stats["document_differs"] += 1
            viol.append((pid + ": correspondence CorrDoc.check_cde_doc: the import document (with the possible-rooms field) differs from the model "
                         "WriteDoc.write_doc [bits %d]" % r["doc_code"],
                         ctx.replay({"kind": "no-failing-input-found", "stream": "cde-rooms", "broken": "CorrDoc.check_cde_doc",
                                     "case": {k: r[k] for k in ("args", "exit", "export", "import", "rooms")}}), True))
        elif not (c & bit):
            viol.append((what + ": " + " ".join(r["args"][:-2])[:200],
                         ctx.replay({"kind": "failing-input", "stream": "cde-rooms", "what": what,
                                     "case": {k: r[k] for k in ("args", "exit", "stderr", "export", "import", "rooms")}}), False))
    return viol[:3], dict(stats)


def c06_cli(ctx, cases):
    """C06 at CLI level: whatever the real binary writes when it was given rooms (--rooms / --rooms-file) can be housed in those rooms"""
    count = 60 if ctx.tier == "quick" else 400
    metas, recs = cli_records(ctx, ctx.seed + 5, count, VARIANTS_C10)
    viol = []
    stats = Counter()
    for r in recs:
        stats["runs"] += 1
        if r["run"]["rc"] != 0 or not isinstance(r["out"], tuple) or r.get("rooms_arg") is None or not (r["code"] & CLI["class"]):
            continue
        stats["solutions_with_rooms_checked"] += 1
        if r["rooms_arg"][0] == "file" and not r["rooms_arg"][1]:
            stats["with_empty_rooms_file"] += 1
        if not (r["code"] & CLI["housed"]):
            viol.append(cli_violation(ctx, r, "C06: the assignment the program wrote cannot be housed in the given rooms (housedb on the output "
                                              "file's assignment, effective sizes with the instance's factors/offsets)"))
    v2, st2 = cde_rooms_stage(ctx, "C06", 2, "C06: the assignment of the CdE import file cannot be housed in the given rooms (effective sizes from the "
                              "export's factor/offset fields and the places of ignored pre-assigned participants; CorrCdeRooms)")
    ctx.extra_cov = {"cli_runs": dict(stats), "cde_rooms": st2}
    return (viol + v2)[:4], []


def c18_cli(ctx, cases):
    """C18 at CLI level: the 'possible course rooms' lines of --print are, byte for byte, the strings of the model of io/rooms.rs
    (RoomsModel.possible / kind_names on the effective sizes of the written assignment; CorrCliText.check_text)"""
    count = 120 if ctx.tier == "quick" else 800
    metas, recs = cli_records(ctx, ctx.seed + 6, count, VARIANTS_C14)
    viol = []
    stats = Counter()
    for r in recs:
        stats["runs"] += 1
        if r.get("text_code") is None or r.get("rooms_arg") is None:
            continue
        stats["print_runs_with_rooms_compared"] += 1
        stats["rooms_%s" % r["rooms_arg"][0]] += 1
        if any(c["fixed"] for c in r["meta"]["inst"]["courses"]):
            stats["with_fixed_courses"] += 1
        if not (r["text_code"] & 1):
            viol.append(cli_violation(ctx, r, "C18: the text printed with --print (possible course rooms lines) differs from the model of "
                                              "io/rooms.rs on the written assignment (CorrCliText.check_text)"))
    v2, st2 = cde_rooms_stage(ctx, "C18", 4, "C18: the possible-rooms field of the CdE import file differs from the strings of the model of io/rooms.rs "
                              "on the written assignment, or a course lacks the field (CorrCdeRooms)")
    ctx.extra_cov = {"cli_runs": dict(stats), "cde_rooms": st2}
    return (viol + v2)[:4], []


def spec_c10(c):
    if c["stream"] == "node" and has(c, NODE, "class") and (c["code"] & NODE["impl_panic"]):
        return "C10: run_bab_node panics on a valid instance and well-formed node"
    if c["stream"] == "solve" and has(c, SOLVE, "class") and not has(c, SOLVE, "returned"):
        return "C10: caobab::solve on a valid instance ends in a " + ("deadlock" if c["meta"]["outcome"] == 1 else "panic")
    if c["stream"] == "gate" and (c["code"] & 2) and (c["code"] & 16):
        return "C10: check_room_feasibility panics on a well-formed subproblem"
    if c["stream"] == "gate" and (c["code"] & 2) and not (c["code"] & 4):
        return "C10: the room stage of a well-formed subproblem produces a child that is not well formed (a course shrunk below its " \
               "minimum size / an enforced course cancelled): enforcing that course later hits the assertion in run_bab_node"
    return None


VARIANTS_C14 = [dict(threads=1, rooms="list", print=True), dict(threads=3, rooms="file", print=True),
                dict(threads=1, rooms="list", print=False, stale_out=True)]


def c14_cli(ctx, cases):
    count = 260 if ctx.tier == "quick" else 1500
    metas, recs = cli_records(ctx, ctx.seed + 6, count, VARIANTS_C14)
    viol = []
    stats = Counter()
    for r in recs:
        run, m = r["run"], r["meta"]
        stats["runs"] += 1
        if run["rc"] != 0:
            stats["no_solution_or_error"] += 1
            continue
        w = None
        if not isinstance(r["out"], tuple):
            w = "C14: output file is not a well-formed simple-format result (%s)" % (r["out"],)
        elif not (r["code"] & CLI["array"]):
            w = "C14: the assignment array has not exactly one entry per input participant / an entry is not a valid course index"
        elif r["variant"].get("print") and isinstance(r["listing"], str):
            w = "C14: the --print listing cannot be matched with the input (%s)" % r["listing"]
        elif r["variant"].get("print") and not (r["code"] & CLI["listing"]):
            w = "C14: the --print listing differs from the listing the assignment array determines (people under a course, " \
                "instructor flags, count incl. hidden names; Listing.listing evaluated in Coq)"
        elif r["variant"].get("print") and r.get("text_code") is not None and not (r["text_code"] & 1):
            w = "C14: the text printed with --print differs from the text the input and the assignment array determine (header, count incl. " \
                "hidden names, room line, people in input order with instructor flag, hidden names; ListingText.print_stage evaluated in Coq)"
        elif r["variant"]["threads"] == 1 and m["lib"]["result"] and list(r["out"][0]) != m["lib"]["result"]["assignment"]:
            w = "C14: the written assignment differs from the assignment caobab::solve returned for the same instance (1 worker)"
        elif r.get("doc_code") is not None and (r["doc_code"] & 1) and (r["doc_code"] & 2) and not (r["doc_code"] & 4):
            w = "C14: the output document is not the documented one for its assignment array (keys format / version / assignment / quality with " \
                "solution_score, theoretical_max_score and the two binary32 quality figures; WriteDoc.simple_doc evaluated in Coq)"
        if r.get("doc_code") is not None:
            stats["output_documents_compared_as_whole_json_values"] += 1
        if r["variant"].get("print") and isinstance(r["listing"], list):
            stats["listings_compared"] += 1
            if r.get("text_code") is not None:
                stats["stdout_texts_compared_bytewise"] += 1
            if any(h for h in m["hidden"]):
                stats["with_hidden_names"] += 1
        if w:
            viol.append(cli_violation(ctx, r, w))
    # "lines up with the input": the input files of these runs read back (reader model SimpleRead, tied to simple::read by C15's stream) as
    # exactly the instances the Coq-side evaluation uses
    bad_files = [m for m in metas if not (m.get("file_code", 0) & 1)]
    stats["input_files_read_back_as_the_instance"] = len(metas) - len(bad_files)
    if bad_files and not viol:
        m = bad_files[0]
        rp = ctx.replay({"kind": "no-failing-input-found", "stream": "cli", "broken": "correspondence CorrCliFile.check_inst_file: the instance file written by "
                         "io::simple::write_input_data does not read back (SimpleRead.simple_read) as the instance", "file": m["file"], "inst": m["inst"]})
        viol.append(("the input file of a CLI run does not read back as the instance (%d files)" % len(bad_files), rp, True))
    ctx.extra_cov = {"cli_runs": dict(stats)}
    return viol[:4], []


# ---- known findings (never written at run time)

def known_entries(pid):
    return [k for k in vlib.load_known().get("known", []) if k.get("property") == pid]


def known_tc(pid):
    """known finding of class TC (a participant with own choices instructs a course): defects D2 (C02) / D3 (C03)"""
    ents = [k for k in known_entries(pid) if k.get("class") == "TC"]
    if not ents:
        return None
    return ents[0]["what"]


def corpus_cases(ctx, stream):
    p = os.path.join(vlib.VERIF, "corpus", "%s_%s.json" % (ctx.pid, stream))
    if not os.path.exists(p):
        return []
    s, cs = run_stream(ctx, stream, ["--replay", p, "--shards", 1], stream, stream)
    for c in cs:
        c["corpus"] = True
    return cs


# ---- C02: optimality without rooms (certified witnesses from the exact search of the harness)

def spec_c02(c):
    if c["stream"] == "tree" and has(c, TREE, "class", "returned") and not has(c, TREE, "c09"):
        return "C02: the generic engine loses the best leaf of a bound-consistent tree (the optimality argument composes C09 with the node bounds)"
    if c["stream"] == "node" and c["meta"].get("report_flag_same") is False:
        # directly on the implementation: the theorems are about the node function, which has no such parameter in the model
        return "C02: the logging option report_no_solution (--report-no-solution) changes what the node function returns for a subproblem " \
               "(%s instead of %s): the search explores a different tree than the one the optimality argument is about" % (
                   json.dumps(c["meta"].get("impl_with_report_no_solution"))[:80], json.dumps(c["meta"].get("impl"))[:80])
    if c["stream"] != "solve" or not has(c, SOLVE, "class") or c["meta"]["inst"]["rooms"] is not None:
        return None
    if not has(c, SOLVE, "nobetter"):
        if c["meta"]["result"] is None:
            return "C02: 'no feasible solution' reported although a hard-feasible assignment exists (witness checked by hard_okb in Coq)"
        return "C02: the reported score is below the score of a hard-feasible assignment (witness checked by hard_okb/score_of in Coq)"
    if has(c, SOLVE, "found") and not has(c, SOLVE, "hard", "score"):
        return "C02: the reported assignment is not hard-feasible or its score is not the recomputed one"
    return None


def known_c02(c, w):
    if c["stream"] == "solve" and has(c, SOLVE, "tc") and "hard-feasible assignment" in w and has(c, SOLVE, "accepted", "result"):
        # defect D2 is that the tree never cancels a course in order to FREE ITS INSTRUCTOR: a result below the optimum over the cancellation
        # sets that free no instructor with own choices is not explained by it (27 000 runs in class TC on the unchanged tree: 551 below
        # the full optimum, none below this one) and is reported
        nf = c["meta"].get("brute_force_nofree")
        rs = (c["meta"].get("result") or {}).get("score")
        if isinstance(nf, dict) and (rs is None or rs < nf["score"]):
            return None
        return known_tc("C02")
    return None


def streams_c02(ctx, scale, off):
    s1, c1 = solve_stream(ctx, ctx.seed + off, 260 * scale, rooms=0, scheds=2, max_c=5, max_p=7)
    s2, c2 = node_stream(ctx, ctx.seed + off + 1, 250 * scale, rooms=0)
    s3, c3 = tree_stream(ctx, ctx.seed + off + 2, 80 * scale, panics=0, dfs=100, max_nodes=10)
    cs = corpus_cases(ctx, "solve") if off == 0 else []
    return [s1, s2, s3], cs + c1 + c2 + c3


# ---- C03: the same instance under different worker counts / schedules

def c03_extra(ctx, cases):
    viol, known = [], []
    groups = {}
    for c in cases:
        if c["stream"] == "solve" and has(c, SOLVE, "class", "returned") and not c.get("corpus"):
            groups.setdefault((c["meta"]["id"], c["meta"]["variant"], c["file"][:11]), []).append(c)
    corp = [c for c in cases if c.get("corpus")]
    if corp:
        groups[("corpus",)] = corp
    ncomp = 0
    for key, cs in groups.items():
        outs = {(c["meta"]["result"] is not None, (c["meta"]["result"] or {}).get("score")) for c in cs}
        ncomp += 1
        if len(outs) > 1:
            if all(has(c, SOLVE, "tc") for c in cs) and known_tc("C03") and all(has(c, SOLVE, "accepted", "result") for c in cs):
                known.append(known_tc("C03"))
                continue
            a = cs[0]
            b = [c for c in cs if (c["meta"]["result"] or {}).get("score") != (a["meta"]["result"] or {}).get("score") or
                 (c["meta"]["result"] is None) != (a["meta"]["result"] is None)][0]
            rp = ctx.replay({"kind": "failing-input", "stream": "solve", "what": "C03: verdict/score differ between two schedules of the same instance",
                             "case": a["meta"], "other_schedule": b["meta"]})
            viol.append(("C03: verdict/score of caobab::solve differ between schedules of one instance: %s workers -> %s, %s workers -> %s" % (
                a["meta"]["k"], a["meta"]["result"] and a["meta"]["result"]["score"], b["meta"]["k"], b["meta"]["result"] and b["meta"]["result"]["score"]), rp, False))
    # the real binary with different --num-threads
    count = 40 if ctx.tier == "quick" else 300
    metas, recs = cli_records(ctx, ctx.seed + 7, count, [dict(threads=1, rooms="list"), dict(threads=2, rooms="list"), dict(threads=16, rooms="list")])
    byid = {}
    for r in recs:
        byid.setdefault(r["meta"]["id"], []).append(r)
    ncli = 0
    for i, rs in byid.items():
        if not (rs[0]["code"] & CLI["class"]):
            continue
        ncli += 1
        outs = {(r["run"]["rc"], r["out"][1] if isinstance(r["out"], tuple) else None) for r in rs}
        if len(outs) > 1:
            if (rs[0]["code"] & CLI["tc"]) and known_tc("C03"):
                known.append(known_tc("C03"))
                continue
            viol.append(cli_violation(ctx, rs[0], "C03: exit status / quality.solution_score differ between --num-threads 1, 2, 16: %s" % sorted(outs, key=str)))
    # larger instances (7-10 courses, 18-45 participants, no instructors) with nearly enough large rooms and one or two tiny ones: the room stage
    # chooses among many equally ranked courses; the real binary with 1, 6 and 16 workers
    wide = clirun.run_wide_family(ctx, vlib.build_cli(), ctx.seed + 71, 12 if ctx.tier == "quick" else 120)
    for inst, rooms, outs in wide:
        if len(set(outs.values())) > 1:
            rp = ctx.replay({"kind": "failing-input", "stream": "cli-wide", "what": "C03: exit status / score differ between thread counts",
                             "instance_file_content": inst, "rooms": rooms, "outcomes": {str(k): v for k, v in outs.items()},
                             "how": "write instance_file_content to a file and run target/cli/debug/cdecao --num-threads N --rooms <rooms> <file> <out> for the thread counts listed"})
            viol.append(("C03: exit status / quality.solution_score differ between --num-threads 1, 6, 16 on an instance with %d courses and %d participants "
                         "(no instructors): %s" % (len(inst["courses"]), len(inst["participants"]), sorted(outs.items())), rp, False))
    ctx.extra_cov = {"schedule_groups_compared": ncomp, "cli_runs": {"runs": len(recs) + 3 * len(wide), "instances_compared_across_thread_counts": ncli,
                                                                      "wide_instances_compared_across_1_6_16_threads": len(wide)}}
    return viol[:4], known


def spec_c03(c):
    if c["stream"] == "tree" and has(c, TREE, "class", "returned") and not has(c, TREE, "c09"):
        return "C03: on a bound-consistent tree the result depends on the schedule (differs from the maximum of the tree)"
    return None


def streams_c03(ctx, scale, off):
    s1, c1 = solve_stream(ctx, ctx.seed + off, 150 * scale, rooms=2, scheds=5, max_c=5, max_p=8, brute=1)
    s2, c2 = tree_stream(ctx, ctx.seed + off + 1, 80 * scale, panics=0, dfs=100, max_nodes=10)
    cs = corpus_cases(ctx, "solve") if off == 0 else []
    return [s1, s2], cs + c1 + c2


# ---- C17: paired runs with / without rooms

def c17_extra(ctx, cases):
    viol = []
    groups = {}
    for c in cases:
        if c["stream"] == "solve" and has(c, SOLVE, "class", "returned"):
            groups.setdefault((c["meta"]["id"], c["file"][:11]), []).append(c)
    npairs = nupper = nnb = 0
    for key, cs in groups.items():
        base = [c for c in cs if c["meta"]["variant"] == "base"]
        if not base:
            continue
        bf = base[0]["meta"]["brute_force"]
        tc = has(base[0], SOLVE, "tc")
        for c in cs:
            v = c["meta"]["variant"]
            res = c["meta"]["result"]
            if v == "nonbinding_rooms" and has(c, SOLVE, "nonbinding"):
                nnb += 1
                twin = [b for b in base if b["meta"]["sched"] == c["meta"]["sched"] and b["meta"]["k"] == c["meta"]["k"]] or base
                if c["meta"]["sched"] == "first" or not tc:
                    b = twin[0]
                    npairs += 1
                    if (res is None) != (b["meta"]["result"] is None) or (res and res["score"] != b["meta"]["result"]["score"]):
                        rp = ctx.replay({"kind": "failing-input", "stream": "solve", "what": "C17: a room list that cannot bind changes verdict/score",
                                         "case": c["meta"], "run_without_rooms": b["meta"]})
                        viol.append(("C17: with a room list that cannot bind (nonbindingb evaluated in Coq) verdict/score differ from the run "
                                     "without rooms: %s vs %s" % (res and res["score"], b["meta"]["result"] and b["meta"]["result"]["score"]), rp, False))
            if v != "base" and res is not None:
                if isinstance(bf, dict):
                    nupper += 1
                    if res["score"] > bf["score"]:
                        rp = ctx.replay({"kind": "failing-input", "stream": "solve", "what": "C17: score with rooms exceeds the optimum without rooms",
                                         "case": c["meta"], "optimum_without_rooms": bf})
                        viol.append(("C17: score %s with rooms exceeds the exact optimum %s without room limits" % (res["score"], bf["score"]), rp, False))
                elif bf == "no feasible assignment":
                    nupper += 1
                    rp = ctx.replay({"kind": "failing-input", "stream": "solve", "what": "C17: solution with rooms although none exists without",
                                     "case": c["meta"]})
                    viol.append(("C17: a solution is reported with rooms although no hard-feasible assignment exists at all", rp, False))
    # the same relation on the real binary: no rooms / --rooms / --rooms-file, the rooms being as many as courses and as large as any course
    # can become, the file giving one kind in several entries (instances without instructors: outside class TC)
    pairs = clirun.run_roomsfile_pairs(ctx, vlib.build_cli(), ctx.seed + 73, 12 if ctx.tier == "quick" else 90)
    for inst, kinds, outs in pairs:
        if len(set(outs.values())) > 1 and len([v for v in viol if v[0].startswith("C17: the real binary")]) < 2:
            rp = ctx.replay({"kind": "failing-input", "stream": "cli-roomsfile", "what": "C17: rooms that cannot bind change exit status / score of the binary",
                             "instance_file_content": inst, "rooms_file_content": kinds, "outcomes": {k: list(v) for k, v in outs.items()},
                             "how": "write both contents to files and run target/cli/debug/cdecao --num-threads 1 [--rooms-file <rooms file> | --rooms <n x capacity>] <file> <out>"})
            viol.append(("C17: the real binary gives different exit status / quality.solution_score without rooms, with --rooms and with --rooms-file although "
                         "the %d rooms (capacity %d each) cannot bind: %s" % (sum(k["quantity"] for k in kinds if k["capacity"] > 0), kinds[0]["capacity"],
                                                                              sorted(outs.items())), rp, False))
    ctx.extra_cov = {"pairs_nonbinding_vs_none_compared": npairs, "nonbinding_lists_confirmed_in_coq": nnb, "runs_with_rooms_compared_with_exact_optimum": nupper,
                     "cli_triples_none_rooms_roomsfile_compared": len(pairs)}
    return viol[:5], []


def spec_c17(c):
    if c["stream"] == "solve" and has(c, SOLVE, "class", "found") and not has(c, SOLVE, "hard", "score"):
        return "C17: the assignment reported with a room list is not hard-feasible or its score is not the recomputed one (so it may exceed the optimum)"
    if c["stream"] == "gate" and (c["code"] & 2) and not (c["code"] & 4):
        return "C17: the room stage of a well-formed subproblem produces a child that cancels a fixed / enforced course or shrinks a course below its " \
               "minimum size: what is found below it is not hard-feasible, so its score is not bounded by the optimum without room limits"
    return None


def streams_c17(ctx, scale, off):
    s1, c1 = solve_stream(ctx, ctx.seed + off, 150 * scale, rooms=0, scheds=2, c17=1, max_c=5, max_p=7)
    s2, c2 = node_stream(ctx, ctx.seed + off + 1, 240 * scale, rooms=1, max_c=9, max_p=10)
    s3, c3 = gate_stream(ctx, ctx.seed + off + 9, 400 * scale)
    return [s1, s2, s3], c1 + c2 + c3


# ---- C15 / C16: malformed input and output faults on the real binary

def exit_checks(ctx, scen_fn, pid, what_table):
    binpath = vlib.build_cli()
    vlib.build_harness()
    sc = scen_fn(ctx, binpath)
    recs = faults.run_scenarios(ctx, binpath, sc)
    recs = faults.eval_exit_cases(ctx, recs)
    viol = []
    known = set()
    stats = Counter()
    disagree = []
    for r in recs:
        stats["runs"] += 1
        stats["exit_%s" % r["exit"]] += 1
        stats["class:" + r["label"].split(":")[0]] += 1
        w = None
        pr = r.get("probe") or {}
        if r.get("closed_stdout"):
            # stdout cannot be written: the `print!` of the listing panics (exit 101) -- an environment limit recorded in the trusted base; what C16
            # demands is still decidable: exit status 0 only if the requested output was written completely
            stats["stdout_closed_runs"] += 1
            if r["exit"] == 0 and not r["file_ok"]:
                w = what_table["c16"]
                rp = ctx.replay({"kind": "failing-input", "stream": "exit", "what": w, "case": {k: r[k] for k in ("label", "args", "flags", "exit", "stderr", "file_ok")},
                                 "how": "run the args with stdout connected to a pipe whose read end is closed"})
                viol.append((w + " [" + r["label"] + "]", rp, False))
            continue
        if (pr.get("parse_ok") and pr.get("consistent") and pr.get("places", 0) >= 5000 and not r["panicked"]
                and (r["exit"] in (1000, 1001, 134, 137))):
            # a well-formed instance with an absurd number of course places (a corrupted size field): time / memory exhaustion is a
            # resource limit outside the claim (DESIGN 3, trusted base of C10/C15); a panic would still be reported
            stats["resource_limit_skipped"] += 1
            continue
        if r["exit"] in (1000, 1001) or r["panicked"] or r["exit"] == 101 or r["exit"] >= 128:
            w = what_table["crash"] % (r["exit"], r["stderr"][-200:].replace("\n", " "))
        elif pid == "C15" and r.get("mistyped") and r["exit"] in (0, 1) and pr.get("parse_ok"):
            # a CdE export with a mistyped optional integer field was not refused
            stats["mistyped_optional_field_accepted"] += 1
            ents = [k for k in known_entries("C15") if k.get("class") == "CDE-TOLERANT"]
            listed = set(ents[0].get("fields", [])) if ents else set()
            if set(r["mistyped"]) <= listed:
                known.add(ents[0]["what"])
                continue
            w = "C15: a CdE export with a mistyped field (%s) is not refused (exit %s)" % (", ".join(sorted(set(r["mistyped"]) - listed)), r["exit"])
        elif r["flags"] is None:
            w = what_table["crash"] % ("library panic in probe", str(r["probe"])[:200])
        elif "code" in r:
            c = r["code"]
            if not c & faults.EXIT["c16"]:
                w = what_table["c16"]
            elif not c & faults.EXIT["c15"]:
                w = what_table["c15"] % r["exit"]
            elif not c & faults.EXIT["nofile"]:
                w = what_table["nofile"]
            elif not c & faults.EXIT["same"]:
                disagree.append(r)
        elif r["file_exists"] and r["exit"] != 0:
            w = what_table["nofile"]
        if w:
            rp = ctx.replay({"kind": "failing-input", "stream": "exit", "what": w, "case": {k: r[k] for k in ("label", "args", "flags", "probe", "exit", "stderr", "file_ok")}})
            viol.append((w + " [" + r["label"] + "]", rp, False))
    if disagree and not viol:
        r = disagree[0]
        rp = ctx.replay({"kind": "no-failing-input-found", "stream": "exit", "broken": "correspondence CorrExit.check_exit: exit status of the binary differs "
                         "from Cli.exit_code on the stage results", "first_disagreeing_case": {k: r[k] for k in ("label", "args", "flags", "probe", "exit", "stderr")},
                         "disagreements": len(disagree)})
        viol.append(("exit status differs from the model Cli.exit_code (%d runs), e.g. %s: exit %s" % (len(disagree), r["label"], r["exit"]), rp, True))
    ctx.extra_cov = {"cli_runs": dict(stats)}
    return viol[:5], sorted(known)


def c15_extra(ctx, cases):
    n = 160 if ctx.tier == "quick" else 1500
    viol, known15 = exit_checks(ctx, lambda c, b: faults.scenarios_c15(c, b, n), "C15", {
        "crash": "C15: the program panics / aborts / hangs on malformed input (exit %s; %s)",
        "c16": "C15/C16: exit status 0 without a complete output file",
        "c15": "C15: malformed input is not refused with a data/usage error status (exit %s)",
        "nofile": "C15: an output file exists although the input was refused"})
    cov = dict(ctx.extra_cov or {})
    # the simple-format reader model (SimpleRead) against simple::read + check_data_consistency, and the binary on a sample
    import simple
    recs = simple.reader_cases(ctx, ctx.seed + 15, 400 if ctx.tier == "quick" else 4000, vlib.build_cli(), bin_sample=80 if ctx.tier == "quick" else 600)
    v2, dis, st = simple.classify(recs)
    brief = lambda r: {k: r.get(k) for k in ("kind", "doc", "impl", "code", "bin", "file")}
    for w, r in v2[:5]:
        rp = ctx.replay({"kind": "failing-input", "stream": "simple-reader", "what": w, "case": brief(r)})
        viol.append((w + " [" + json.dumps(r["doc"])[:200] + "]", rp, False))
    if dis and not v2:
        r = min(dis, key=lambda x: len(json.dumps(x["doc"])))
        rp = ctx.replay({"kind": "no-failing-input-found", "stream": "simple-reader", "broken": "correspondence CorrSimple.check_simple: the model "
                         "SimpleRead.simple_read / consistentb and io::simple::read / check_data_consistency differ on a document",
                         "first_disagreeing_case": brief(r), "disagreements": len(dis)})
        viol.append(("the simple-format reader model differs from io::simple::read on %d documents, e.g. %s" % (len(dis), json.dumps(r["doc"])[:200]), rp, True))
    st["runs"] = st["docs"]
    cov["simple_reader"] = dict(st)
    # rooms files (io::rooms::read) and --rooms strings against the model, binary on a sample / on all strings
    goodfile = os.path.join(ctx.work, "faults", "good.json")
    rrecs, srecs = simple.rooms_cases(ctx, ctx.seed + 16, 200 if ctx.tier == "quick" else 2000, vlib.build_cli(), goodfile,
                                      bin_sample=40 if ctx.tier == "quick" else 300)
    v3, dis3, st3 = simple.classify_rooms(rrecs, srecs)
    brief2 = lambda r: {k: r.get(k) for k in ("what", "kind", "doc", "impl", "code", "bin", "file")}
    for w, r in v3[:5]:
        rp = ctx.replay({"kind": "failing-input", "stream": "rooms-reader", "what": w, "case": brief2(r)})
        viol.append((w + " [" + json.dumps(r["doc"])[:200] + "]", rp, False))
    if dis3 and not v3:
        r = min(dis3, key=lambda x: len(json.dumps(x["doc"])))
        rp = ctx.replay({"kind": "no-failing-input-found", "stream": "rooms-reader", "broken": "correspondence CorrSimple.check_rooms_file: the model "
                         "SimpleRead.rooms_file_read and io::rooms::read differ on a rooms file", "first_disagreeing_case": brief2(r), "disagreements": len(dis3)})
        viol.append(("the rooms-file reader model differs from io::rooms::read on %d files, e.g. %s" % (len(dis3), json.dumps(r["doc"])[:200]), rp, True))
    st3["runs"] = st3["docs"]
    cov["rooms_reader"] = dict(st3)
    ctx.extra_cov = cov
    return viol[:5], known15


def c16_extra(ctx, cases):
    return exit_checks(ctx, faults.scenarios_c16, "C16", {
        "crash": "C16: the program panics / aborts / hangs (exit %s; %s)",
        "c16": "C16: exit status 0 although the requested output file was not written completely (missing, truncated or not JSON of the format)",
        "c15": "C16: unexpected refusal status %s on a well-formed run",
        "nofile": "C16: a well-formed output file is reported for a run whose output stage failed"})


def spec_c18(c):
    if c["stream"] == "rooms" and (c["code"] & 4) and not (c["code"] & 2):
        return "C18: a listed room size is not usable (too small / no complete allocation) or a course that takes place is offered no room " \
               "(listing_okb evaluated in Coq on the implementation's lists)"
    if c["stream"] == "rooms" and (c["code"] & 4) and not (c["code"] & 16):
        return "C18: a listed room kind has quantity 0 or a capacity that is not listed for the course"
    return None


def streams_c18(ctx, scale, off):
    s1, c1 = run_stream(ctx, "rooms", ["--seed", ctx.seed + off, "--count", 500 * scale, "--shards", 8], "rooms", "rooms")
    return [s1], c1


# ---- CdE Datenbank formats (C05, C11, C12, C13)

def brief_cde(r):
    return {k: r.get(k) for k in ("export_file", "track", "ignore_cancelled", "ignore_assigned", "args", "exit", "stderr", "problem", "lists", "impl", "code", "export")}


def c12_extra(ctx, cases, for_c08=False):
    n = 150 if ctx.tier == "quick" else 1500
    vlib.build_harness()
    recs = cde.read_cases(ctx, ctx.seed + 12, n)
    viol, dis = [], []
    st = Counter()
    for r in recs:
        c = r["code"]
        st["cases"] += 1
        st["accepted" if c & 2 else "refused"] += 1
        if r["ignore_assigned"]:
            st["ignore_assigned"] += 1
        if r["ignore_cancelled"]:
            st["ignore_cancelled"] += 1
        if isinstance(r["impl_full"], dict) and r["impl_full"].get("quality") and r["impl_full"]["quality"][1]:
            st["with_external_penalties"] += 1
        w = None
        if "panic" in r["impl_full"]:
            w = "C12/C15: cdedb::read panics"
        elif not for_c08 and not c & 4:
            w = "C12: a choice's penalty is not its position in the registration's choice list of the export (penalties_okb evaluated in Coq)"
        elif not c & 16:
            w = "C08: an ignored pre-assigned participant is not rated by the rank of its course in the ORIGINAL choice list (ext_quality_okb: " \
                "AssignmentQualityInfo recomputed declaratively from the raw export in Coq)"
        elif not for_c08 and not c & 64:
            w = "C12: a participant of the problem has no valid choice and instructs no course of the problem (involved_okb on the implementation's output)"
        elif not for_c08 and not c & 8:
            w = "C12: a document of the wrong kind / schema version / without or with several unselected tracks / with an unknown track was accepted"
        elif (c & 33) != 33:
            dis.append(r)
        if w:
            viol.append((w, ctx.replay({"kind": "failing-input", "stream": "cderead", "what": w, "case": brief_cde(r)}), False))
    if dis and not viol:
        r = min(dis, key=lambda r: len(json.dumps(r["export"])))
        what = "correspondence CorrCde.check_read: cdedb::read differs from the transcription Json.read_fields or from the declarative specification " \
               "CdeSpec.spec_read (participants, choices/penalties, courses, sizes, instructors, hidden names, room fields, external quality " \
               "data, ids, or acceptance)"
        rp = ctx.replay({"kind": "no-failing-input-found", "stream": "cderead", "broken": what, "first_disagreeing_case": brief_cde(r), "impl_full": r["impl_full"],
                         "disagreements": len(dis)})
        viol.append(("%s (%d cases)" % (what, len(dis)), rp, True))
    ctx.extra_cov = dict(getattr(ctx, "extra_cov", {}) or {}, cde_reader={"runs": st["cases"], **dict(st)})
    return viol[:4], []


def cde_oracle_c11(r):
    """independent reading of C11's first clauses from the raw export (python): returns a text if violated"""
    e, t, ic, ia = r["export"], r["track"], r["ignore_cancelled"], r["ignore_assigned"]
    if r["lists"] is None:
        return None
    regs, crs = r["lists"]
    tid = t
    if tid is None:
        ts = [k for p in e["event"]["parts"].values() for k in p["tracks"]]
        tid = int(ts[0]) if len(ts) == 1 else None
    if tid is None:
        return None
    part = [pid for pid, p in e["event"]["parts"].items() if str(tid) in p["tracks"]][0]
    offered = {int(c) for c, v in e["courses"].items() if str(tid) in v["segments"]}
    cancelled = {int(c) for c, v in e["courses"].items() if v["segments"].get(str(tid)) is False}
    in_problem = offered - (cancelled if ic else set())
    mentioned_c = {c for c, _ in crs}
    active = {c for c, a in crs if a}
    if ic and (mentioned_c & cancelled or {c for _, c in regs} & cancelled):
        return "C11: with --ignore-cancelled a cancelled course is mentioned in / assigned to by the import file"
    if not (mentioned_c <= offered) or not ({c for _, c in regs} <= offered):
        return "C05: the import file mentions a course that is not offered in the selected track"
    if ia:
        for rid, v in e["registrations"].items():
            st = v["parts"].get(part, {}).get("status")
            cid = v["tracks"].get(str(tid), {}).get("course_id")
            if st == 2 and cid is not None and cid in in_problem:
                if int(rid) in {x for x, _ in regs}:
                    return "C11: with --ignore-assigned an already assigned registration (%s) is reassigned / mentioned in the import file" % rid
                if cid not in active:
                    return "C11: the course (%s) of an ignored pre-assigned registration is cancelled / not marked as taking place" % cid
    rids = {int(x) for x in e["registrations"]}
    if not ({x for x, _ in regs} <= rids):
        return "C05: the import file names a registration that is not in the export"
    return None


def e2e_checks(ctx, pid, seed, count, opts_fn, what_prefix, rooms=False, cov_key="cli_runs"):
    binpath = vlib.build_cli()
    recs = cde.e2e_cases(ctx, seed, count, binpath, opts_fn=opts_fn, rooms=rooms)
    viol, dis, dis_doc = [], [], []
    st = Counter()
    for r in recs:
        c = r["code"]
        st["runs"] += 1
        if r.get("doc_code") is not None:
            st["documents_compared_as_whole_json_values"] += 1
            if r["doc_code"] & 16:
                st["exports_with_canonical_keys(C05_end_to_end applies)"] += 1
        st["exit_%s" % r["exit"]] += 1
        if r["ignore_assigned"]:
            st["ignore_assigned"] += 1
        if r["ignore_cancelled"]:
            st["ignore_cancelled"] += 1
        w = None
        if r["timeout"] or r["panicked"] or r["exit"] not in (0, 1, 65):
            w = "%s: the program crashes / hangs on a well-formed export (exit %s)" % (what_prefix, r["exit"])
        elif r["exit"] == 0 and (r["lists"] is None):
            w = "%s: exit 0 but the import file is missing / malformed / names another track (%s)" % (what_prefix, r["problem"])
        elif r["exit"] == 0 and not c & cde.IMP["model_reads"]:
            dis.append(r)
        elif r["exit"] == 0 and not c & cde.IMP["import_ok"]:
            w = "%s: applying the import file does not yield a consistent track (import_okb evaluated in Coq: ids, chosen/instructed course marked " \
                "active, sizes within the limits counting reserved places, nobody in a cancelled course, fixed courses active)" % what_prefix
        elif r["exit"] == 0 and not c & cde.IMP["hard"]:
            w = "%s: the assignment encoded by the import file violates the hard constraints of the problem" % what_prefix
        elif r["exit"] == 0 and cde_oracle_c11(r):
            w = cde_oracle_c11(r)
        elif r["exit"] == 0 and rooms and r.get("rooms_code") is not None and (r["rooms_code"] & 1) and not (r["rooms_code"] & 2):
            w = "%s: with room options the written assignment cannot be housed when the places of the ignored pre-assigned people are counted " \
                "(effective sizes from the export's factor / offset fields plus the reserved places, housedb evaluated in Coq)" % what_prefix
        elif r["exit"] == 0 and not c & cde.IMP["write_agree"]:
            dis.append(r)
        elif r["exit"] == 0 and r.get("doc_code") is not None and (r["doc_code"] & 3) == 3 and not (r["doc_code"] & 32):
            w = "C08: the quality figures in the summary of the import file (solution quality / overall assignment quality) are not the mean penalty of the " \
                "written assignment resp. the combined figure with the rated ignored pre-assigned participants of the export (binary32 bit patterns, " \
                "QualityComb.comb_num / comb_den with the reader model's external data, evaluated in Coq)"
        elif r["exit"] == 0 and r.get("doc_code") is not None and (r["doc_code"] & 1) and (r["doc_code"] & 14) != 14:
            dis_doc.append(r)
        elif r["exit"] != 0 and r["lists"] is not None:
            w = "%s: an import file was written although the exit status is %s" % (what_prefix, r["exit"])
        if r["exit"] == 0:
            st["files_checked"] += 1
        if r["exit"] == 65:
            m65 = re.search(r"ERROR cdecao\] (.*)", r["stderr"] or "")
            st["refused: " + (m65.group(1)[:60] if m65 else "?")] += 1
        if rooms and r.get("rooms"):
            st["rooms_%s" % r["rooms"]["rooms_arg"][0]] += 1
        if w:
            viol.append((w, ctx.replay({"kind": "failing-input", "stream": "cde-e2e", "what": w, "case": dict(brief_cde(r), args=r.get("args"))}), False))
    if dis and not viol:
        r = dis[0]
        what = "correspondence CorrCde.check_import: the import file differs from the model Cde.write_regs / write_courses, or the model refuses an export the binary accepts"
        viol.append((what + " (%d runs)" % len(dis), ctx.replay({"kind": "no-failing-input-found", "stream": "cde-e2e", "broken": what,
                                                                  "first_disagreeing_case": brief_cde(r), "disagreements": len(dis)}), True))
    if dis_doc and not viol:
        r = dis_doc[0]
        what = "correspondence CorrDoc.check_cde_doc: the import document differs from the model WriteDoc.write_doc (keys, schema version, kind, event id, " \
               "registrations / courses objects, possible-rooms field, fixed part of the summary) [bits %d]" % r["doc_code"]
        viol.append((what + " (%d runs)" % len(dis_doc), ctx.replay({"kind": "no-failing-input-found", "stream": "cde-e2e", "broken": what,
                                                                      "first_disagreeing_case": dict(brief_cde(r), document=r.get("import")), "disagreements": len(dis_doc)}), True))
    ctx.extra_cov = dict(getattr(ctx, "extra_cov", {}) or {}, **{cov_key: dict(st)})
    return viol[:4], []


def c05_extra(ctx, cases):
    n = 420 if ctx.tier == "quick" else 3000
    return e2e_checks(ctx, "C05", ctx.seed + 5, n, None, "C05")


def c11_opts(r, ex):
    ts = [t for t, _ in ex["tracks"]]
    res = []
    for (ic, ia) in ((False, True), (True, True), (True, False)):
        res.append((r.choice(ts) if len(ts) > 1 or r.random() < 0.5 else None, ic, ia))
    return res


def c11_extra(ctx, cases):
    n = 80 if ctx.tier == "quick" else 900
    v1, k1 = e2e_checks(ctx, "C11", ctx.seed + 11, n, c11_opts, "C11")
    # ... and with room options (--rooms / --rooms-file, factor / offset fields): "room fitting counts both groups", courses of ignored people
    # are never cancelled by the room stage either
    v3, k3 = e2e_checks(ctx, "C11", ctx.seed + 12, (70 if ctx.tier == "quick" else 500), c11_opts, "C11", rooms=True, cov_key="cli_runs_rooms")
    v1, k1 = v1 + v3, k1 + k3
    # the reserved places / fixed flag / room offset of courses with ignored people: reader correspondence
    v2, k2 = c12_extra(ctx, cases, for_c08=True)
    return (v1 + v2)[:4], k1 + k2


def irrelevant_edit(r, e, tid, ic, ia):
    """1-5 edits that must not matter: other tracks / parts, lodgement and persona data, and (without the options) course_id values and
    boolean flips of segments of the selected track"""
    e = copy.deepcopy(e)
    part = [pid for pid, p in e["event"]["parts"].items() if str(tid) in p["tracks"]][0]
    other_tracks = [k for p in e["event"]["parts"].values() for k in p["tracks"] if k != str(tid)]
    cids = [int(c) for c in e["courses"]]
    done = []
    nedits = r.randint(1, 5)
    for ei in range(nedits + 1):
        if ei == nedits:
            # every fourth twin additionally gets new persona names
            if r.random() < 0.25 and "persona_names" not in done:
                kind = "persona_names"
            else:
                break
        else:
            kind = "__pick__"
        if kind == "__pick__":
            kind = r.choice(["reg_other_track", "reg_other_part", "seg_other_track", "persona", "lodgement", "course_id", "seg_flip", "course_other_field",
                             "persona_names"])
        if kind == "reg_other_track" and other_tracks and e["registrations"]:
            reg = e["registrations"][r.choice(list(e["registrations"]))]
            t2 = r.choice(other_tracks)
            reg["tracks"][t2] = {"course_id": r.choice([None] + cids), "course_instructor": r.choice([None] + cids), "choices": r.sample(cids, r.randint(0, len(cids)))}
        elif kind == "reg_other_part" and e["registrations"]:
            reg = e["registrations"][r.choice(list(e["registrations"]))]
            others = [p for p in e["event"]["parts"] if p != part]
            if others:
                reg["parts"][r.choice(others)] = {"status": r.choice([-1, 1, 2, 3, 4, 5])}
            else:
                continue
        elif kind == "seg_other_track" and other_tracks:
            c = e["courses"][r.choice(list(e["courses"]))]
            t2 = r.choice(other_tracks)
            if r.random() < 0.3 and t2 in c["segments"]:
                del c["segments"][t2]
            else:
                c["segments"][t2] = r.choice([True, False])
        elif kind == "persona" and e["registrations"]:
            reg = e["registrations"][r.choice(list(e["registrations"]))]
            reg["persona"]["username"] = "x%d@example.org" % r.randint(0, 99)
            reg["persona"]["birthday"] = "2000-01-0%d" % r.randint(1, 9)
        elif kind == "persona_names" and e["registrations"]:
            # the names are permuted among the registrations and get new initials: their alphabetical order changes
            regs = list(e["registrations"].values())
            names = [(g["persona"].get("family_name"), g["persona"].get("given_names")) for g in regs]
            r.shuffle(names)
            for g, (fn, gn) in zip(regs, names):
                g["persona"]["family_name"] = r.choice("AMZ\u00c4") + str(fn)
                g["persona"]["given_names"] = r.choice("abz") + str(gn)
        elif kind == "lodgement":
            e["lodgements"][str(r.randint(1, 50))] = {"title": "Haus %d" % r.randint(1, 9), "regular_capacity": r.randint(1, 9)}
        elif kind == "course_id" and not ia and e["registrations"]:
            reg = e["registrations"][r.choice(list(e["registrations"]))]
            if str(tid) in reg["tracks"]:
                reg["tracks"][str(tid)]["course_id"] = r.choice([None] + cids)
            else:
                continue
        elif kind == "seg_flip" and not ic:
            c = e["courses"][r.choice(list(e["courses"]))]
            if isinstance(c["segments"].get(str(tid)), bool):
                c["segments"][str(tid)] = not c["segments"][str(tid)]
            else:
                continue
        elif kind == "course_other_field":
            c = e["courses"][r.choice(list(e["courses"]))]
            c["title"] = "Ein längerer Titel %d" % r.randint(0, 99)
            c["fields"]["room"] = "R%d" % r.randint(0, 9)
        else:
            continue
        done.append(kind)
    return e, done


def c13_extra(ctx, cases):
    n = 260 if ctx.tier == "quick" else 2500
    binpath = vlib.build_cli()
    r, exports = cde.make_exports(ctx, ctx.seed + 13, n, dense_assign=True)
    d = os.path.join(ctx.work, "cde")
    pairs = []
    for ex in exports:
        if ex["export"]["kind"] != "partial" or not ex["tracks"]:
            continue
        for (track, ic, ia) in cde.option_sets(r, ex, 2):
            tid = track if track is not None else (ex["tracks"][0][0] if len(ex["tracks"]) == 1 else None)
            if tid is None or tid not in [t for t, _ in ex["tracks"]]:
                continue
            e2, kinds = irrelevant_edit(r, ex["export"], tid, ic, ia)
            if not kinds:
                continue
            p2 = os.path.join(d, "twin_%04d_%d.json" % (ex["id"], len(pairs)))
            json.dump(e2, open(p2, "w", encoding="utf-8"), ensure_ascii=False)
            pairs.append((ex, e2, p2, track, ic, ia, kinds))
    # directed: ALL course_id values of the selected track replaced (without --ignore-assigned) and / or ALL segment flags of the selected track
    # flipped (without --ignore-cancelled): whatever role a registration or course plays, these data must not matter
    r3 = random.Random(ctx.seed + 1314)
    for ex in exports[:(90 if ctx.tier == "quick" else 900)]:
        e = ex["export"]
        if e["kind"] != "partial" or not ex["tracks"]:
            continue
        tid = r3.choice(ex["tracks"])[0]
        ic, ia = r3.choice([(False, False), (False, False), (True, False), (False, True)])
        e2 = copy.deepcopy(e)
        cids = [int(c) for c in e2["courses"]]
        kinds = []
        if not ia:
            for reg in e2["registrations"].values():
                if str(tid) in reg["tracks"]:
                    reg["tracks"][str(tid)]["course_id"] = r3.choice([None] + cids + cids)
            kinds.append("all_course_ids")
        if not ic:
            for c in e2["courses"].values():
                if isinstance(c["segments"].get(str(tid)), bool):
                    c["segments"][str(tid)] = (not c["segments"][str(tid)]) if r3.random() < 0.7 else c["segments"][str(tid)]
            kinds.append("all_seg_flags")
        p2 = os.path.join(d, "twin_all_%04d.json" % ex["id"])
        json.dump(e2, open(p2, "w", encoding="utf-8"), ensure_ascii=False)
        # two thirds of these pairs are run with a room list and the room factor / offset fields of the generated exports ("rf", "ro"): rooms of a
        # few places each, so that the sizes computed from the fields decide what fits (own generator: the draws above stay as they are)
        r4 = random.Random(ctx.seed + 1315 + ex["id"])
        room_args = []
        if ex["id"] % 3 != 0:
            nc = max(1, len(e["courses"]))
            sizes = sorted([r4.choice([2, 3, 3, 4, 5, 6]) for _ in range(nc + r4.choice([-1, 0, 0, 1]))] or [3], reverse=True)
            room_args = ["--rooms", ",".join(map(str, sizes)), "--room-factor-field", "rf", "--room-offset-field", "ro"]
            kinds = kinds + ["run_with_rooms_and_room_fields"]
        pairs.append((ex, e2, p2, tid, ic, ia, kinds, room_args))
    # directed: tie-heavy exports (several equally good solutions; which one is written depends on the order of the participants) whose twin has
    # the alphabetical order of the persona names REVERSED -- the order of the participants must be that of the registration ids only
    r2 = random.Random(ctx.seed + 1313)
    for k in range(50 if ctx.tier == "quick" else 400):
        e, tracks = cde.gen_export(r2, dense_assign=False)
        if e["kind"] != "partial" or not tracks or len(e["registrations"]) < 3:
            continue
        cde.make_ties(r2, e)
        tid = r2.choice(tracks)[0]
        part = [pid for pid, p in e["event"]["parts"].items() if str(tid) in p["tracks"]][0]
        for reg in e["registrations"].values():
            reg["parts"][part] = {"status": 2}
            reg["tracks"].setdefault(str(tid), {"course_id": None, "course_instructor": None, "choices": []})
            reg["tracks"][str(tid)]["course_instructor"] = None
        for c in e["courses"].values():
            c["segments"][str(tid)] = True
        cde.make_ties(r2, e)
        p1 = os.path.join(d, "tie_%04d.json" % k)
        json.dump(e, open(p1, "w", encoding="utf-8"), ensure_ascii=False)
        e2 = copy.deepcopy(e)
        order = sorted(e2["registrations"], key=lambda rid: (e2["registrations"][rid]["persona"]["given_names"], e2["registrations"][rid]["persona"]["family_name"]))
        for pos, rid in enumerate(order):
            pers = e2["registrations"][rid]["persona"]
            pers["given_names"] = "%s%02d %s" % ("ZYXWVUTSRQPONMLKJIHGFEDCBA"[pos % 26], 99 - pos, pers["given_names"])
        p2 = os.path.join(d, "tie_twin_%04d.json" % k)
        json.dump(e2, open(p2, "w", encoding="utf-8"), ensure_ascii=False)
        pairs.append(({"id": 9000 + k, "file": p1, "export": e, "tracks": tracks}, e2, p2, tid, False, False, ["persona_names"]))
    from concurrent.futures import ThreadPoolExecutor

    def work(t):
        ex, e2, p2, track, ic, ia, kinds = t[:7]
        room_args = t[7] if len(t) > 7 else []
        res = []
        for src, tag in ((ex["file"], "a"), (p2, "b")):
            outp = p2 + "." + tag + ".out"
            if os.path.exists(outp):
                os.remove(outp)
            args = ["--cde", "--num-threads", "1"] + (["--track", str(track)] if track is not None else []) + (["-i"] if ic else []) + (["-j"] if ia else []) + room_args + [src, outp]
            run = clirun.run_bin(binpath, args)
            out = None
            if os.path.exists(outp):
                try:
                    dd = json.load(open(outp, encoding="utf-8"))
                    out = {"registrations": dd.get("registrations"), "courses": dd.get("courses")}
                except Exception as ex2:
                    out = "unparsable: %s" % ex2
            m = re_score.search(run["stderr"])
            res.append({"args": args, "exit": run["rc"], "out": out, "score": m.group(1) if m else None, "stderr": run["stderr"][-300:]})
        return res

    import re
    global re_score
    re_score = re.compile(r"Solution score:\s+(\d+)")
    with ThreadPoolExecutor(max_workers=16) as exr:
        results = list(exr.map(work, pairs))
    # the model must classify the edit as irrelevant too: read_full equal on both documents
    pairs = [t[:7] for t in pairs]
    texts = ["(%s, %s, %s)" % (cde.coq(ex["export"]), cde.coq(e2), cde.g_opts(track, ic, ia)) for (ex, e2, p2, track, ic, ia, kinds) in pairs]
    named = [i for i, pr in enumerate(pairs) if "persona_names" in pr[6]]
    plain = [i for i, pr in enumerate(pairs) if "persona_names" not in pr[6]]
    codes = [None] * len(pairs)
    for i, c in zip(plain, cde.eval_cases(ctx, "twin", "twin_case", "check_twin", [texts[i] for i in plain])):
        codes[i] = c
    if named:
        for i, c in zip(named, cde.eval_cases(ctx, "twinnn", "twin_case", "check_twin_nn", [texts[i] for i in named])):
            codes[i] = c
    viol = []
    st = Counter()
    dis = []
    for (ex, e2, p2, track, ic, ia, kinds), (a, b), code in zip(pairs, results, codes):
        st["pairs"] += 1
        for k in kinds:
            st["edit:" + k] += 1
        if a["exit"] == 0:
            st["pairs_with_solution"] += 1
        if (a["exit"], a["out"], a["score"]) != (b["exit"], b["out"], b["score"]):
            w = "C13: an edit outside the selected track's live data (%s) changes verdict, score or the written assignments/segments" % ", ".join(kinds)
            viol.append((w, ctx.replay({"kind": "failing-input", "stream": "cde-twin", "what": w, "case": {"export": ex["export"], "edited_export": e2, "edits": kinds,
                                        "run_original": a, "run_edited": b}}), False))
        elif not code & 1:
            dis.append((ex, e2, kinds, a, b))
    if dis and not viol:
        ex, e2, kinds, a, b = dis[0]
        what = "correspondence CorrCde.check_twin: the reader model Json.read_full distinguishes two exports that differ only by an irrelevant edit (%s)" % ", ".join(kinds)
        viol.append((what, ctx.replay({"kind": "no-failing-input-found", "stream": "cde-twin", "broken": what,
                                       "first_disagreeing_case": {"export": ex["export"], "edited_export": e2, "edits": kinds}}), True))
    ctx.extra_cov = dict(getattr(ctx, "extra_cov", {}) or {}, cli_runs={"runs": 2 * len(pairs), **dict(st)})
    return viol[:4], []


def spec_none(c):
    return None


def streams_none(ctx, scale, off):
    return [], []


def streams_node_solve(rooms):
    def f(ctx, scale, off):
        s1, c1 = node_stream(ctx, ctx.seed + off, 400 * scale, rooms=rooms, max_c=(9 if rooms == 1 else 6))
        s2, c2 = solve_stream(ctx, ctx.seed + off + 1, 180 * scale, rooms=rooms)
        cs = corpus_cases(ctx, "solve") if off == 0 else []      # minimised inputs of earlier findings run first (corpus/<id>_solve.json)
        s3, c3 = gate_stream(ctx, ctx.seed + off + 7, 300 * scale)   # the room stage alone at realistic sizes (fixed / enforced courses in conflicts)
        return [s1, s2, s3], cs + c1 + c2 + c3
    return f


def streams_c10(ctx, scale, off):
    ss, cs = streams_node_solve(2)(ctx, scale, off)
    s3, c3 = gate_stream(ctx, ctx.seed + off + 8, 600 * scale)
    return ss + [s3], cs + c3


def streams_solver_tie(ctx, scale, off):
    """C05 / C11 are stated for hard-feasible assignments: the tie of the solver to its model (C01) is part of what they rest on"""
    s1, c1 = node_stream(ctx, ctx.seed + off + 21, 250 * scale, rooms=2)
    s2, c2 = solve_stream(ctx, ctx.seed + off + 22, 100 * scale, rooms=2)
    s3, c3 = gate_stream(ctx, ctx.seed + off + 23, 300 * scale)
    return [s1, s2, s3], c1 + c2 + c3


def c08_extra(ctx, cases):
    v1, k1 = c12_extra(ctx, cases, for_c08=True)
    # end to end: the figures the binary prints into the summary of the import file (with and without ignored pre-assigned participants)
    # against the model's mean penalty / combined figure (CorrDoc bit 32)
    v2, k2 = e2e_checks(ctx, "C08", ctx.seed + 8, 70 if ctx.tier == "quick" else 700, c11_opts, "C08", cov_key="cli_runs_summary_figures")
    return (v1 + [v for v in v2 if v[0].startswith("C08")])[:4], k1 + k2


def streams_c08(ctx, scale, off):
    ss, cs = streams_node_solve(2)(ctx, scale, off)
    s3, c3 = run_stream(ctx, "qual", ["--seed", ctx.seed + off + 2, "--count", 400 * scale, "--shards", 8], "qual", "qual")
    return ss + [s3], cs + c3


def streams_tree(panics):
    def f(ctx, scale, off):
        s1, c1 = tree_stream(ctx, ctx.seed + off, 140 * scale, panics=panics, dfs=150, max_nodes=12)
        return [s1], c1
    return f


def mk(spec_fn, streams_fn, rule, known_fn=None, extra_fn=None):
    return {"run": lambda ctx, search=False: generic_run(ctx, search, streams_fn, spec_fn, rule, known_fn, extra_fn),
            "replay": lambda ctx, path: generic_replay(ctx, path, spec_fn)}


RULE_NS = "seeded generator of instances (1-6 courses, 1-9 participants; styles tiny/ample/mixed/zero-size; instructors with and without own " \
          "choices, instructor-only participants, fixed courses, over-/under-subscription, rank/tie/large penalties; room lists shorter/equal/" \
          "longer, tight/loose; factors 1, .5, 1.25, 1.5, 2, 2.5, 1.1f32, .3f32 and offsets); node stream: every node met while walking the " \
          "subproblem tree (<= 8 per instance) plus random nodes; solve stream: caobab::solve with 1 worker (default schedule) and 2-4 workers " \
          "(random / PCT schedules, spurious wake-ups) through the scheduler shim; non-trivial = distinct (instance, node|schedule) with a " \
          "valid instance"
RULE_TREE = "seeded synthetic subproblem trees (1-12 nodes, chains and bushy, all result kinds, scores with ties / tight bounds / 0 and " \
            "u32::MAX, childless Infeasible nodes, 1/6 not bound consistent), 1-4 workers, schedulers: default, seeded random, PCT, spurious " \
            "wake-ups, exhaustive DFS over all schedules of trees <= 4 nodes with 2 workers; non-trivial = distinct (tree, schedule) accepted"

REGISTRY = {

    "C12": dict(mk(spec_none, streams_none, "seeded well-formed partial exports (1-3 parts, 0-2 tracks each, 2-7 courses with segment maps offered/"
                   "cancelled/absent, non-dense ids with lexicographic != numeric order, non-ASCII course numbers, missing/odd size limits, 1-10 "
                   "registrations with all status codes, choices of cancelled / not offered courses, existing assignments and instructors, "
                   "kind 'full' and schema versions at and beyond the window) x (track given / omitted / unknown, both ignore flags)",
                   extra_fn=c12_extra), allow_axioms=(),
        explanation="C12_room_fields (the configured room factor / offset fields are the numbers found under those names in the course's `fields` object); "
                    "C12_refinement: the line-by-line transcription Json.read_fields of cdedb::read equals the declarative specification "
                    "CdeSpec.spec_read for every document and option set (refusals with their reasons included); C12_track_selected / "
                    "_refuse_unknown_track / _refuse_no_or_several_tracks / _single_track_selected (which track, and the track refusals); "
                    "C12_participants/_order/_kept/"
                    "_courses/_instructors/_limits/_penalty_position say what the specification contains (exactly the registrations with status "
                    "participant in the track's part that are not ignored and have a valid choice or instruct; exactly the offered courses in "
                    "sorted order; limits with defaults; penalty = position); C12_refuse_* the mandatory refusals.  The transcription is tied to the "
                    "real reader by exact comparison on every generated export and option set (incl. room factor/offset fields as binary32 bit "
                    "patterns), and two declarative predicates are evaluated in Coq on the implementation's own output.",
        trusted_base=["modelled, not verified: src/io/cdedb.rs read(); serde_json text -> Value (BTreeMap key order) trusted; timestamp parsing "
                      "not modelled"],
        assumptions=[]),
    "C05": dict(mk(spec_c01, streams_solver_tie, "solver tie (the theorems speak about hard-feasible assignments): node and solve streams with "
                   "hard_okb on the implementation's assignments; end to end: generated exports -> real binary --cde (1 thread; track given/omitted, all ignore-flag "
                   "combinations) -> import file parsed -> checked in Coq against the reader model's problem (Cde.import_okb) and the write model",
                   extra_fn=c05_extra), allow_axioms=(),
        explanation="C05 (Cde theorems): for the problem the reader builds, every hard-feasible assignment (C01) is written as an import file that "
                    "satisfies import_ok: only ids of the problem, each assigned registration in a course marked active that the person chose or "
                    "instructs, active courses within their limits, nobody in a cancelled course; C05_file: the writer model's file for any hard-feasible "
                    "assignment passes the executable check import_okb; C05_ids_distinct / C05_export_file: its hypothesis 'pairwise distinct ids' holds for every "
                    "accepted export with canonical decimal keys (object keys are distinct, parse_u64 is injective on canonical keys); C05_document: the whole "
                    "JSON value of the import file (WriteDoc.write_doc: every key) is read by a strict import side as exactly the registration pairs and course "
                    "rows it was made from, the selected track only (C05_other_track_refused: read for another track it is refused); C05_keys_parse_back (parse_u64 (zstr z) = Some z for all u64); "
                    "C05_check_sound: what import_okb accepts satisfies the declarative statement ImportOK; C05_end_to_end: accepted export with canonical keys -> reader -> ANY hard-feasible "
                    "assignment -> the writer's whole document -> import side -> ImportOK (with the non-vacuity example C05_end_to_end_applies); C05_document_compare (json_eqb decides equality).  The real import files are "
                    "compared AS WHOLE JSON VALUES with the writer model (CorrDoc.check_cde_doc, incl. the fixed part of the summary and the possible-rooms field), "
                    "parsed, and checked by import_okb.",
        trusted_base=["modelled, not verified: cdedb.rs read()/write() (whole document modelled as a JSON value; of the summary only the part before the wall-clock time, "
                      "the timestamp not at all); the meaning of a partial import in the CdE Datenbank is taken from the property text"],
        assumptions=["registrations the reader drops (not 'participant', no valid choice and no instructed course) keep what the database holds",
                     "a participant of the problem whom the result assigns to nothing (an instructor without choices whose course is cancelled) is not mentioned in the file and "
                     "keeps what the database holds: C05 speaks about whom the file assigns ('newly')",
                     "of the summary only the part before the wall-clock time is modelled (the quality figures printed in its tail are not)"]),
    "C11": dict(mk(spec_c01, streams_solver_tie, "solver tie as C05; as C05 with dense existing assignments (as attendee, as instructor of the same or another course, to "
                   "cancelled / not offered courses, beyond max_size, below min_size) and the three option sets with an ignore flag; plus an "
                   "independent reading of the raw export for 'ignored registrations are not mentioned, their courses stay active, cancelled "
                   "courses are not mentioned'", extra_fn=c11_extra), allow_axioms=(),
        explanation="C11_end_to_end: for every accepted export with canonical keys and every option set, the import side reads from the writer's whole document only "
                    "participants and courses of the problem (ignored registrations / ignored cancelled courses are none of them) and finds every course with reserved places marked as taking place.  "
                    "C11 (Cde theorems): the adapted limits reserve the places of ignored attendees (new + pre <= max(max, pre), min met counting both), "
                    "courses with ignored people are fixed and therefore written active, ignored registrations and ignored courses are not part of "
                    "the problem and hence never in the file (C11_ignored_not_participant, _problem_courses, _ignored_course_lookup, _reserved_places on "
                    "the reader specification that the transcription is proved to compute).  Real import files checked in Coq and against the raw export.",
        trusted_base=["as C05; room fitting with both groups (offset increase) is covered by the reader correspondence (offset field) and C06, not "
                      "by a separate end-to-end run with rooms"],
        assumptions=["a registration assigned to a course that is itself ignored counts as unassigned (readme)"]),
    "C13": dict(mk(spec_none, streams_none, "metamorphic pairs: an export and its twin after 1-5 edits of other tracks' registration data, other parts' "
                   "statuses, other tracks' segments, persona / lodgement / extra course fields, and (without the respective option) course_id "
                   "values and boolean flips of the selected track's segments; both run through the real binary with 1 thread",
                   extra_fn=c13_extra), allow_axioms=(),
        explanation="C13: two exports that agree on the event structure and, for every course and registration, on course_data / reg_data of "
                    "the SELECTED part and track only (CdeInvariance.selected = find_track; nr, shortname, sizes, fields, the track's segment entry; "
                    "the part's status entry, the two names, the track's entry; C13_applies: a twin pair differing in another track's data "
                    "satisfies the hypotheses) give the same result of the transcription Json.read_fields -- proved through the refinement to the declarative "
                    "specification (CdeRefine, CdeInvariance); C13_assigned_irrelevant / C13_cancelled_irrelevant: without the respective option "
                    "existing assignments / the cancelled flag do not enter.  Every generated twin pair is additionally evaluated in Coq and run "
                    "through the real binary: verdict, score and written assignments/segments are identical.",
        trusted_base=["modelled, not verified: cdedb.rs read() (tied by the reader correspondence of C12)"],
        assumptions=["one worker thread for equality of the written assignment"]),

    "C15": dict(mk(spec_none, streams_none, "single-field corruptions (delete / null / wrong type / negative / out-of-range index / float / list / object) of "
                   "a valid simple-format document and of the two CdE export fixtures, truncated and garbage bytes, empty file, schema versions "
                   "outside the window, unknown / missing / non-numeric track, rooms strings and rooms files (unparsable, wrong types, missing), both room "
                   "options, --num-threads 0 / -1 / x, missing input, no arguments; stage results predicted by construction or by the library probe",
                   extra_fn=c15_extra), allow_axioms=(),
        explanation="C15_refused (Cli.malformed_refused): for every combination of stage results that is not a well-formed run the exit status is "
                    "one of 2/64/65/66 and the output stage is never reached.  C15_simple_refused / C15_simple_accepted: the simple-format reader and "
                    "check_data_consistency as total Gallina functions of the JSON document (SimpleRead: serde's derived deserializers from objects "
                    "and arrays, defaults, integer ranges; consistency incl. penalty < WEIGHT_OFFSET and instructor uniqueness): what the model does "
                    "not accept is refused, what it accepts has all references in range.  The model is compared exactly with simple::read + "
                    "check_data_consistency on generated, positional-form, boundary-value and corrupted documents, and the real binary (debug build) is "
                    "run on a sample (refused with 65 exactly when the model does not accept) and on the malformed stream (exit status compared in "
                    "Coq with Cli.exit_code); any panic/abort/hang or an output file after a refusal is a violation.",
        trusted_base=["modelled: the decision skeleton of main.rs, io::simple::read, io::check_data_consistency; serde_json text -> Value and clap "
                      "parsing are trusted libraries; the CdE reader is the model of C12 (total by construction, exact correspondence there); time / "
                      "memory exhaustion for absurd sizes (>= 5000 course places) is a resource limit outside the claim, as are the memory of the possible-rooms listing (courses x rooms), a closed stdout with --print and the u32 statistics "
                      "counters after 2^32 subproblems (audit of all panic sites, DESIGN 10.4a D16)"],
        assumptions=["'malformed' = some stage returns Err, as predicted by the reader model (simple format) or by construction / the same library "
                     "functions main.rs calls (other stages); for CdE exports additionally: an optional integer field (max_size, min_size, course_id, "
                     "course_instructor, num_choices) with a value of the wrong type -- accepted by the reader: known finding D17 (class CDE-TOLERANT)"]),
    "C16": dict(mk(spec_none, streams_none, "output faults on the real binary: missing directory (ENOENT), path below a regular file (ENOTDIR), path is a "
                   "directory (EISDIR), 5000-character name (ENAMETOOLONG), /dev/full (ENOSPC on write), an existing longer file at the path; both "
                   "formats (simple, CdE small and large), with and without --print", extra_fn=c16_extra), allow_axioms=(),
        explanation="C16_exit0_written / C16_failure_nonzero (Cli.exit0_output_written, output_failure_nonzero): status 0 with a requested output "
                    "implies create and write succeeded, for all stage results.  Fault enumeration on the real binary; the file is parsed back.",
        trusted_base=["modelled: main.rs decision skeleton; what the kernel does after write() returned (delayed allocation, errors at close) is outside "
                      "the claim; EACCES not exercised (the sandbox runs as root)"],
        assumptions=["a write failure is reported by the writer's Result (serde_json::to_writer on an unbuffered File)"]),
    "C18": dict(mk(spec_c18, streams_c18, "seeded assignments (ties among sizes, empty and fixed courses, factors/offsets), room lists housed by construction "
                   "or arbitrary, fewer/more rooms than courses, duplicate capacities, room-kind files with split capacities and quantity-0 kinds; "
                   "non-trivial = distinct room-feasible cases; CLI stream: the 'possible course rooms' lines of --print compared bytewise with the model",
                   extra_fn=c18_cli), allow_axioms=tuple(sorted(vlib.FLOCQ_AXIOMS)),
        explanation="C18 (every listed size is at least the course's size and is its room in an injective allocation that houses every course of "
                    "positive size), C18_nonempty, C18_kinds (listed kinds have positive quantity and a listed capacity; repaired by fix 3ff583c). "
                    "Rank-level theorems independent of the unstable sort's tie order; C18_course_level / C18_for_solutions carry them to course indices "
                    "and to every solution the search can end with (C06's criterion is the listing's precondition); C18_rooms_file: rooms::read only "
                    "reorders.  Implementation lists and the result of rooms::read compared exactly with the model and checked by listing_okb.",
        trusted_base=["modelled, not verified: src/io/rooms.rs; effective sizes via Flocq binary32 in the correspondence (theorems are about sizes as "
                      "numbers and carry no axioms); string joining of names not modelled (ids are compared)"],
        assumptions=["'takes place' = effective size >= 1"]),

    "C02": dict(mk(spec_c02, streams_c02, RULE_NS + "; no room lists; exact optimum by exhaustive search in the harness (<= 5 courses, <= 7 "
                   "participants), its witness assignment certified in Coq (hard_okb, score_of); CLI stream: the real binary's verdict and score "
                   "against caobab::solve on generated files incl. tight instances (as many places as participants with choices, plus choice-less "
                   "non-instructors)", known_fn=known_c02, extra_fn=c02_cli), allow_axioms=(),
        explanation="C02_final / C02_sized / C02_noTC: for every valid instance without rooms outside class TC, every worker count and "
                    "interleaving, the final best score is >= the score of every hard-feasible assignment, and 'no solution' only if none exists "
                    "(hypotheses: validity and the size bound the program enforces; scores fit u32; no panic site and no i32 Overflow are proved); "
                    "C02_partial: the same relative to assignments that keep instructors-with-choices teaching (all instances); C02_refuted: the "
                    "defect D2 on the faithful model (known finding).  Every solve is replayed through the model; a better "
                    "hard-feasible assignment found by the exact search is a violation (outside TC) certified inside Coq.",
        trusted_base=["modelled, not verified: caobab.rs, bab.rs, hungarian.rs; the exact search of the harness is only a generator of witnesses "
                      "(each witness is checked in Coq); absence of a witness for larger instances is not a proof"],
        assumptions=["known finding: class TC (instances in which a participant with own choices instructs a course), defect D2"]),
    "C03": dict(mk(spec_c03, streams_c03, RULE_NS + "; every instance solved under 5 schedules (1 worker default; 2-4 workers random/PCT, spurious "
                   "wake-ups) and compared; synthetic trees as in C09; CLI with --num-threads 1, 2, 16", known_fn=None, extra_fn=c03_extra), allow_axioms=(),
        explanation="C03_engine: on bound-consistent trees any two final states (any worker counts, any interleavings) agree on verdict and score; "
                    "C03_final / C03_fixed / C03_rooms_noTC: caobab::solve WITH OR WITHOUT rooms outside class TC: the whole subproblem tree incl. "
                    "room constraint sets is bound consistent (Mono1-3), no generated subproblem panics or overflows, so verdict and score are "
                    "schedule independent (hypotheses: validity, not TC, the size bound); C03_refuted: defect D3 (two "
                    "recorded histories of one TC instance with scores 200000 / 199999, replayed inside Coq).  All histories are replayed "
                    "through the model; results of different schedules of one instance are compared.",
        trusted_base=["modelled, not verified: bab.rs, caobab.rs; OS scheduling replaced by the shim's schedules (critical sections, not "
                      "instruction interleavings)"],
        assumptions=["known finding: class TC, defect D3"]),
    "C17": dict(mk(spec_c17, streams_c17, "seeded instances, each solved without rooms, with a room list that cannot bind (confirmed by nonbindingb "
                   "in Coq) and with an arbitrary list derived from it; 1 worker default schedule and 2-4 workers random; exact optimum without "
                   "rooms by exhaustive search", extra_fn=c17_extra), allow_axioms=(),
        explanation="C17_upper: with any room list the reported score (every schedule) is the score of a hard-feasible assignment, hence never "
                    "above the optimum without rooms; C17_nonbinding_node / C17_nonbinding: with a list that cannot bind the node function gives exactly the "
                    "result it gives without rooms for every subproblem, so both searches are the same transition system.  Paired runs compared; the histories are replayed through the model.",
        trusted_base=["modelled, not verified: caobab.rs room stage; node-level equality run(Some rooms) = run(None) for non-binding lists is "
                      "established by correspondence (both runs replayed against the model), not by a theorem"],
        assumptions=["effective sizes in binary32 (Flocq) as in C06"]),

    "C10": dict(mk(spec_c10, streams_c10, RULE_NS + "; CLI stream: the real binary (debug build) on generated simple-format files incl. "
                   "over-subscribed and infeasible instances, 1/2/4 threads, --rooms / --rooms-file, --print", extra_fn=c10_extra), allow_axioms=(),
        explanation="C10_never_hangs (the subproblem tree is finite: a height drops along every child; with C04_no_deadlock every run ends); "
                    "C10_fixed_node / _fixed_total / _fixed_answered (current code: no panic site 1-10 is reachable for any generated subproblem, "
                    "every subproblem is answered, no worker dies -- hypotheses: valid instance and the size bound the program checks itself); "
                    "C10_prealloc (panic site 11, the pre-allocation with util::binom -- defect D15, fixed by f71c4f2: no overflow, capacity <= 24310); "
                    "C10_scores_fit_u32 (the score of every node answer, Infeasible included, is within u32), C10_executed_positive (the divisor of "
                    "the statistics line is >= 1), C10_rows_checker (the size clause on the problem, both formats, implies SizeOK); "
                    "C10_document_* / C10_export_valid (accepted documents are valid instances up to three unchecked clauses). "
                    "The real binary is run on generated valid instances: exit 0 with a well-formed output or exit 1 with the message and "
                    "no output, no panic, no timeout; node-, gate- and solve-level outcomes compared with the model (debug build: overflow "
                    "and debug_assert are panics; the gate stream includes WIDE cases with 60-70 equal courses); corpus/C10_solve.json (witness of defect D14) runs first.",
        trusted_base=["modelled, not verified: src/caobab.rs, src/bab.rs (tied by the node / gate / solve streams); main.rs exit-code decisions "
                      "are modelled in Cli.v and observed on the binary; memory exhaustion / running time not modelled"],
        assumptions=["valid instances (validb); the size bound (participants + course places <= 42947) is enforced by the program since fix 4b4a650"]),
    "C14": dict(mk(spec_none, streams_none, "CLI stream: generated valid simple-format instances (non-ASCII names, hidden participant names, "
                   "participants without choices), binary run with --print and an output file, 1 and 3 threads, --rooms/--rooms-file; stdout "
                   "parsed back into (course, count, [(participant, flag)], hidden) and compared in Coq with Listing.listing of the written array",
                   extra_fn=c14_cli), allow_axioms=(),
        explanation="C14_document / C14_document_round_trip / C14_document_entries: the output document (WriteDoc.simple_doc = the JSON value simple::write serialises, compared as a "
                    "whole with every real output file, quality figures as binary32 bit patterns, null for 0/0) has the documented keys, its array has one entry per participant, each null or a valid course index, and reads back as the assignment; "
                    "C14_document_input: for every accepted input document the array has one entry per participant of the input, each null or an index into the input's course list.  "
                    "C14_partition / C14_flags / C14_count / C14_once about the structural model of format_assignment (Listing.listing): under "
                    "each course exactly the people the array assigns to it, flagged exactly its instructors, count = people + hidden names; "
                    "C14_array: the array shape follows from C01's HardOK.  C14_text: for every accepted input document the TEXT written by --print "
                    "(ListingText.print_stage: model of main.rs's print! and io::format_assignment on the instance as the reader model reads it) "
                    "is the rendering of that structural listing; C14_text_lines / C14_text_recover: when no name contains a line feed the lines of the text are the title followed by that rendering (the structure can be read off stdout).  The real binary's "
                    "stdout is compared byte for byte with the model text inside Coq (CorrCliText.check_text, incl. hidden names and the room "
                    "line for --rooms and --rooms-file with split kinds, empty kinds, non-ASCII kind names); additionally the output file and the "
                    "listing are parsed and checked against the structural model.",
        trusted_base=["modelled, not verified: src/io.rs format_assignment (exact text, compared bytewise), src/io/simple.rs writer (whole output document as a JSON value, WriteDoc.simple_doc, compared with every "
                      "real output file incl. the quality object with binary32 bit patterns); serde_json text encoding trusted; for the structural comparison names are generated unique, without newline "
                      "and without the suffix ' (instr)' (the listing is ambiguous otherwise)"],
        assumptions=["participant and course names are unique in the generated instances (needed to parse the listing back)"]),

    "C01": dict(mk(spec_c01, streams_node_solve(2), RULE_NS + "; CLI stage: large instances (a course with a minimum above 100, 105-180 participants) on the real "
                   "binary, hard_okb on what it writes", extra_fn=c01_extra), allow_axioms=(),
        explanation="C01_node / C01: for every valid instance, every node, every worker count and interleaving (all reachable states of the "
                    "engine model), with and without rooms, the best solution satisfies the hard constraints for a set K of non-fixed "
                    "courses that do not take place.  Proved from the matching routine's validity (C07), the feasibility gate and the "
                    "NoFix invariant of generated nodes.  Tied to caobab.rs/bab.rs by node-level and history-level correspondence.",
        trusted_base=["modelled, not verified: src/caobab.rs (precompute_problem, run_bab_node, check_feasibility, room stage), src/bab.rs "
                      "(worker loop as small-step system), src/hungarian.rs; critical sections assumed atomic (std Mutex/Condvar)"],
        assumptions=["instance validity as in the property text (validb, reflected by C01_valid_checker_sound)"]),
    "C06": dict(mk(spec_c06, streams_node_solve(1), RULE_NS + "; CLI stream: the real binary with --rooms / --rooms-file (empty files included), "
                   "housedb on the written assignment", extra_fn=c06_cli), allow_axioms=tuple(sorted(vlib.FLOCQ_AXIOMS)),
        explanation="C06_node / C06: a Feasible answer (and every best solution of the search, any schedule) passed the room gate, and passing "
                    "the gate means Housed: rank-wise comparison of the descending sorts (proved; the sort is proved to be a sort), which is EXACTLY the existence of an "
                    "allocation of pairwise distinct, sufficiently large rooms (C06_housed_iff, C06_allocation).  Generic "
                    "in the effective-size function; the binary32 instance (Flocq) is what the correspondence evaluates.",
        trusted_base=["modelled, not verified: room stage of src/caobab.rs; f32 arithmetic = Flocq binary32 round-to-nearest-even; "
                      "C06_binary32 (instantiation only) depends on Flocq's classical axioms: sig_not_dec, sig_forall_dec, "
                      "functional_extensionality_dep, classic"],
        assumptions=["room_factor/room_offset enter the model as the f32 bit patterns the program holds after parsing"]),
    "C08": dict(mk(spec_c08, streams_c08, RULE_NS + "; quality stream: 1-20000 participants with choices, scores with small/odd/large total penalty, external quality data; CdE reader stream: the penalties of ignored pre-assigned participants (AssignmentQualityInfo) compared with the reader model under all ignore-flag combinations", extra_fn=c08_extra), allow_axioms=(),
        explanation="C08_score_node / C08_score (score = score recomputed from the assignment, every schedule), C08_quality (numerator = sum "
                    "of penalties), C08_max (theoretical maximum >= score), C08_overall / C08_overall_none (combined_quality: numerator = penalties of the optimised participants with "
                    "choices + penalties of the rated ignored ones, denominator = their number; QualityComb.comb_num / comb_den are what the quality stream divides in binary32; INSTRUCTOR_SCORE is generated "
                    "from caobab.rs), C08_numerators_nonneg (the unsigned subtractions cannot wrap for valid instances).  QualityInfo of the implementation is recomputed in Coq "
                    "(binary32 quotient compared bit for bit).  The rating of ignored pre-assigned participants: C08_external_rank / _first_rank / "
                    "_external_list / _external_instructors (only instructors WITH choices are counted: defect D18, fixed by 2b07851) on the reader "
                    "specification, and ext_quality_okb (recomputed declaratively from the raw export) on the implementation's output.",
        trusted_base=["modelled, not verified: src/caobab/solution_score.rs, src/caobab.rs; printing of f32 values (Display) not modelled"],
        assumptions=["valid instances with at least one participant with choices (else the quality is 0/0)"]),
    "C04": dict(mk(spec_c04, streams_tree(0), RULE_TREE), allow_axioms=(),
        explanation="C04_accounting, C04_no_deadlock, C04_termination, C04_final over the small-step model of bab.rs (every worker count, "
                    "every interleaving, spurious wake-ups); C04_replay: a history accepted by the executable replay is a run of the model. "
                    "Every recorded history of the real bab::solve (scheduler shim) is replayed in Coq; statistics compared.",
        trusted_base=["modelled, not verified: src/bab.rs worker loop; std::sync semantics (atomic critical sections, wait releases and "
                      "re-acquires, notify wakes waiting threads, spurious wake-ups); the scheduler shim src/verif/sync.rs"],
        assumptions=["fairness/timing of OS threads is outside the model; termination is stated as a measure on steps"]),
    "C09": dict(mk(spec_c09, streams_tree(0), RULE_TREE), allow_axioms=(),
        explanation="C09: covering invariant instantiated with target = feasible nodes below the root: on every bound-consistent finite "
                    "tree, for every worker count and interleaving, a final state holds a maximal feasible node (or nothing if none).  "
                    "Model follows the repaired comparison (fix d88e800).  Histories replayed in Coq; the tree is evaluated exhaustively.",
        trusted_base=["modelled, not verified: src/bab.rs; the scheduler shim"], assumptions=["scores within the Score type (<= max_value)"]),
    "C19": dict(mk(spec_c19, streams_tree(1), RULE_TREE + "; one or two failing (panicking) nodes at random positions"), allow_axioms=(),
        explanation="C19_no_hang, C19_reported, C19_terminates over the model with the repaired panic step (fix bf4f1b4): some worker can "
                    "always move while one is unfinished, and a worker is dead iff a node solver failed.  Histories with failing nodes "
                    "replayed in Coq; the shim reports deadlocks.",
        trusted_base=["modelled, not verified: src/bab.rs incl. the catch_unwind arm; join order of the main thread; the scheduler shim"],
        assumptions=["a panic is the only failure mode of a node solver"]),
    "C07": {
        "run": c07_run, "replay": c07_replay, "allow_axioms": (),
        "explanation": "Theorem C07 (total correctness for every input admitting a perfect allowed matching: never stuck, result is a "
                       "perfect allowed matching of maximal weight and the score is its weight, or the range-checked Overflow outcome), "
                       "C07_total (weights in [0, Wmax] and (N + 2) * Wmax <= i32::MAX: the Overflow outcome is impossible -- dual-objective "
                       "potential argument, every label stays within [-N*Wmax, (N+1)*Wmax], HP7) and "
                       "C07_partial are proved about the Gallina transcription HP1.hungarian (invariants, Hall-type progress, weak duality). "
                       "The transcription is tied to hungarian.rs by exact comparison of matching, score and final dual labels on generated inputs.",
        "trusted_base": ["modelled, not verified: src/hungarian.rs; i32 label arithmetic is range-checked in the model (Overflow outcome) "
                         "for the slack scan and the label update; the sums in the initial/extension equality tests are not range-checked in "
                         "the model but lie within the same proved window (HP7.bnd_window: lx + ly in [-N*Wmax, (N+1)*Wmax])"],
        "assumptions": ["generated weights are < 2^20 so that no i32 overflow occurs in the implementation (debug build would panic)"],
    },
    "C20": {
        "run": c20_run, "replay": c20_replay, "allow_axioms": (),
        "explanation": "Theorems C20_enum/C20_iterator/C20_order/C20_empty/C20_binom/C20_binom_machine (every n < 2^64: no overflow, exact count or usize::MAX; defect D15 fixed by f71c4f2)/C20_binom64 are proved for all n and k about "
                       "the Gallina model SelModel.v (rank argument via Pascal's rule, completeness by counting). The model is tied "
                       "to util.rs by running the real iterator on every (n,k) up to the tier bound and comparing values, "
                       "size hints and binom exactly inside Coq.",
        "trusted_base": ["modelled, not verified: src/util.rs (KSelectionIterator::next, size_hint, binom); the machine arithmetic of binom "
                         "(usize, 128-bit product, saturation) is modelled by SelModel.binom64 and covered by C20_binom_machine for every "
                         "n < 2^64; size_hint's subtraction and sum of binoms only up to the enumerated n"],
        "assumptions": ["size_hint exactness is claimed for 1 <= k <= n only (for k = 0 the real size_hint reports 1 although "
                        "nothing is yielded; the property text does not cover that case)",
                        "the data slice is irrelevant: selections are determined by their index vectors"],
    },
}
