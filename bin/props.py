"""Per-property correspondence logic.  Each entry of REGISTRY has
   run(ctx, search)  -> {"coverage": {...}, "violations": [(what, replay, no_input)], "known": [lines]}
   replay(ctx, path) -> same, for one recorded case
"""
import glob
import json
import os
import time
from collections import Counter

import vlib
from vlib import log, write_replay

BIT_AGREE, BIT_SPEC, BIT_CLASS = 1, 2, 4


class Ctx:
    def __init__(self, pid, tier, seed):
        self.pid, self.tier, self.seed = pid, tier, seed
        self.work = vlib.clean_work(pid)
        self.nrep = 0

    def replay(self, obj):
        self.nrep += 1
        obj = dict(obj)
        obj.setdefault("property", self.pid)
        obj.setdefault("seed", self.seed)
        obj.setdefault("replay_cmd", "python3 /verif/bin/check.py %s --replay <this file>" % self.pid)
        return write_replay(self.pid, self.seed, self.nrep, obj)


def eval_bitcases(ctx, sub, args, prefix, timeout=1500, env=None):
    """runs `vh <sub> args --out work`, evaluates all cases_<prefix>_*.v, returns (harness summary, [case dicts])"""
    for f in glob.glob(os.path.join(ctx.work, "cases_%s_*" % prefix)):
        os.remove(f)
    t0 = time.time()
    summary = vlib.vh([sub] + args + ["--out", ctx.work], env=env)
    t1 = time.time()
    paths = sorted(glob.glob(os.path.join(ctx.work, "cases_%s_*.v" % prefix)))
    results = vlib.run_shards(paths, timeout=timeout)
    cases = []
    for p, codes in zip(paths, results):
        meta = json.load(open(p[:-2] + ".json"))
        flat = [c for blk in codes for c in blk]
        if len(flat) != len(meta):
            raise RuntimeError("result count mismatch in %s: %d codes, %d cases" % (p, len(flat), len(meta)))
        for i, (c, m) in enumerate(zip(flat, meta)):
            cases.append({"code": c, "meta": m, "file": os.path.basename(p), "index": i})
    summary["_harness_s"] = round(t1 - t0, 2)
    summary["_coq_s"] = round(time.time() - t1, 2)
    return summary, cases


def classify(ctx, cases, what_spec, what_corr, known_pred=None, max_report=3):
    """generic classification of bit-coded cases"""
    viol, known, disagree = [], [], []
    for c in cases:
        if not c["code"] & BIT_SPEC:
            k = known_pred(c) if known_pred else None
            if k:
                known.append(k)
                continue
            viol.append(c)
        elif not c["code"] & BIT_AGREE:
            disagree.append(c)
    out = []
    for c in viol[:max_report]:
        rp = ctx.replay({"kind": "failing-input", "what": what_spec, "case": c["meta"], "code": c["code"],
                         "cases_file": c["file"], "index": c["index"]})
        out.append((what_spec + " fails on " + json.dumps(c["meta"])[:160], rp, False))
    return out, sorted(set(known)), disagree, viol


# =============================================================================================== C20

def c20_run(ctx, search=False):
    max_n = 11 if ctx.tier == "quick" else 16
    shards = 8 if ctx.tier == "quick" else 16
    summary, cases = eval_bitcases(ctx, "sel", ["--max-n", max_n, "--shards", shards], "sel")
    # larger n: the first steps of every (n,k) up to n = 18 (what room branching can request) and binom for all n <= 62
    s_p, cases_p = eval_bitcases(ctx, "selp", ["--min-n", max_n + 1, "--max-n", 18, "--steps", 40 if ctx.tier == "quick" else 400], "selp")
    s_b, cases_b = eval_bitcases(ctx, "selp", ["--min-n", 1, "--max-n", 0], "binom")
    cases = cases + cases_p + cases_b
    viol, known, disagree, _ = classify(
        ctx, cases, "k-subset enumeration / size_hint / binom exactness (spec predicate on the implementation's output)",
        "SelModel vs util.rs")
    if (disagree or search) and not viol:
        # search for a failing input with the larger bound
        if ctx.tier == "quick":
            s2, cases2 = eval_bitcases(ctx, "sel", ["--max-n", 13, "--shards", 16], "sel")
            v2, _, _, _ = classify(ctx, cases2, "k-subset enumeration exactness", "SelModel vs util.rs")
            viol += v2
            cases = cases + cases2
        if disagree and not viol:
            c = disagree[0]
            rp = ctx.replay({"kind": "no-failing-input-found", "broken": "correspondence CorrSel.check_sel (model SelModel.it_run / "
                             "binom64 against util.rs iter_selections / size_hint / binom): outputs differ",
                             "first_disagreeing_case": c["meta"], "code": c["code"], "cases_file": c["file"], "index": c["index"],
                             "disagreements": len(disagree)})
            viol.append(("model and implementation of the k-subset iterator disagree on (n,k)=(%s,%s)" % (
                c["meta"]["n"], c["meta"]["k"]), rp, True))
    nontrivial = {(c["meta"]["n"], c["meta"]["k"], c["meta"].get("mode", "full")) for c in cases if c["code"] & BIT_CLASS}
    cov = {
        "evaluations": len(cases),
        "distinct_nontrivial": len(nontrivial),
        "rule": "every (n,k) with 0 <= n <= %d and 0 <= k <= n+2 run on the real iterator to exhaustion (values, size_hint before every "
                "next and after the final None, binom); for %d <= n <= 18 the first steps of every (n,k); binom for all n <= 62, k <= n+1 "
                "(overflow panic of the debug build included); non-trivial = distinct (n,k,mode) with 1 <= k <= n (binom: n <= 57)" % (max_n, max_n + 1),
        "exhaustive": True,
        "input_distribution": {"max_n": max_n, "index_vectors_yielded": summary.get("total_vectors"),
                               "cases_in_class_1<=k<=n": len(nontrivial), "cases_outside_class": len(cases) - len(nontrivial)},
        "disagreements_model_vs_impl": len(disagree),
        "samples": [c["meta"] for c in cases[:3]] + [c["meta"] for c in cases if c["meta"]["n"] == 5 and c["meta"]["k"] == 2][:1],
        "timing": {"harness_s": summary.get("_harness_s"), "coq_eval_s": summary.get("_coq_s")},
    }
    return {"coverage": cov, "violations": viol, "known": []}


def c20_replay(ctx, path):
    r = json.load(open(path))
    n = r.get("case", r.get("first_disagreeing_case", {})).get("n", 8)
    summary, cases = eval_bitcases(ctx, "sel", ["--max-n", max(n, 1), "--shards", 4], "sel")
    viol, known, disagree, _ = classify(ctx, cases, "k-subset enumeration exactness", "SelModel vs util.rs")
    for c in disagree[:1]:
        rp = ctx.replay({"kind": "no-failing-input-found", "broken": "correspondence CorrSel.check_sel", "first_disagreeing_case": c["meta"]})
        viol.append(("model and implementation disagree", rp, True))
    return {"coverage": {"evaluations": len(cases), "distinct_nontrivial": len(cases), "samples": [c["meta"] for c in cases[:2]]},
            "violations": viol, "known": []}


# =============================================================================================== C07

def hung_stats(cases):
    h = Counter()
    for c in cases:
        code = c["code"]
        h["in_class"] += 1 if code & 4 else 0
        h["certificate_on_impl_labels_ok"] += 1 if code & 8 else 0
        h["model_overflow"] += 1 if code & 16 else 0
        h["model_stuck(no perfect matching exists)"] += 1 if code & 32 else 0
    return dict(h)


def c07_run(ctx, search=False):
    if ctx.tier == "quick":
        plan = [("a", 1200, 12), ("b", 60, 28)]
    else:
        plan = [("a", 16000, 14), ("b", 1500, 40)]
    cases, summaries = [], []
    for i, (tag, count, dim) in enumerate(plan):
        s, cs = eval_bitcases(ctx, "hung", ["--seed", ctx.seed + i, "--count", count, "--max-dim", dim, "--shards", 16], "hung")
        summaries.append(s)
        cases += cs
    viol, known, disagree, _ = classify(ctx, cases, "maximum-weight constrained perfect matching (perfect, allowed, score = weight = optimum)",
                                        "HP1.hungarian vs hungarian.rs")
    # a case of the class on which the certificate fails although the score is optimal is reported as correspondence break
    if (disagree or search) and not viol:
        s, cs = eval_bitcases(ctx, "hung", ["--seed", ctx.seed + 77, "--count", 4000, "--max-dim", 10, "--shards", 16], "hung")
        v2, _, d2, _ = classify(ctx, cs, "maximum-weight constrained perfect matching", "HP1.hungarian vs hungarian.rs")
        viol += v2
        cases += cs
        disagree += d2
        if disagree and not viol:
            c = min(disagree, key=lambda c: len(json.dumps(c["meta"])))
            rp = ctx.replay({"kind": "no-failing-input-found", "broken": "correspondence CorrHung.check_hung (model HP1.hungarian against "
                             "hungarian.rs: matching, score and final labels must be equal; a panic must correspond to Overflow/Stuck)",
                             "first_disagreeing_case": c["meta"], "code": c["code"], "disagreements": len(disagree)})
            viol.append(("model and implementation of the matching routine disagree (%d cases)" % len(disagree), rp, True))
    distinct = {json.dumps([c["meta"][k] for k in ("w", "dx", "my", "sx", "sy")]) for c in cases if c["code"] & BIT_CLASS}
    cov = {
        "evaluations": len(cases), "distinct_nontrivial": len(distinct),
        "rule": "seeded generator of masked weight matrices (styles zero/binary/ties/small/large/caobab blocks, non-square with equal "
                "active counts, dummy rows, mandatory columns, ~8% without any perfect allowed matching); non-trivial = distinct inputs "
                "that satisfy the theorem's precondition (a perfect allowed matching exists)",
        "input_distribution": {"per_batch": summaries, "outcomes": hung_stats(cases)},
        "disagreements_model_vs_impl": len(disagree),
        "samples": [c["meta"] for c in cases[3:5]],
    }
    return {"coverage": cov, "violations": viol, "known": []}


def c07_replay(ctx, path):
    r = json.load(open(path))
    case = r.get("case") or r.get("first_disagreeing_case")
    tmp = os.path.join(ctx.work, "replay_in.json")
    json.dump([case], open(tmp, "w"))
    s, cs = eval_bitcases(ctx, "hung", ["--replay", tmp, "--shards", 1], "hung")
    viol, known, disagree, _ = classify(ctx, cs, "maximum-weight constrained perfect matching", "HP1.hungarian vs hungarian.rs")
    for c in disagree[:1]:
        rp = ctx.replay({"kind": "no-failing-input-found", "broken": "correspondence CorrHung.check_hung", "first_disagreeing_case": c["meta"]})
        viol.append(("model and implementation disagree", rp, True))
    return {"coverage": {"evaluations": len(cs), "distinct_nontrivial": len(cs), "samples": [c["meta"] for c in cs[:1]]},
            "violations": viol, "known": []}


REGISTRY = {
    "C07": {
        "run": c07_run, "replay": c07_replay, "allow_axioms": (),
        "explanation": "Theorem C07 (total correctness for every input admitting a perfect allowed matching: never stuck, result is a "
                       "perfect allowed matching of maximal weight and the score is its weight, or the range-checked Overflow outcome) and "
                       "C07_partial are proved about the Gallina transcription HP1.hungarian (invariants, Hall-type progress, weak duality). "
                       "The transcription is tied to hungarian.rs by exact comparison of matching, score and final dual labels on generated inputs.",
        "trusted_base": ["modelled, not verified: src/hungarian.rs; i32 label arithmetic is range-checked in the model (Overflow outcome) "
                         "for the slack scan and the label update, not for the initial/extension equality tests; that Overflow does not "
                         "occur for n*W < 2^30 is the classical potential bound, not formalised"],
        "assumptions": ["generated weights are < 2^20 so that no i32 overflow occurs in the implementation (debug build would panic)"],
    },
    "C20": {
        "run": c20_run, "replay": c20_replay, "allow_axioms": (),
        "explanation": "Theorems C20_enum/C20_iterator/C20_order/C20_empty/C20_binom/C20_binom64 are proved for all n and k about "
                       "the Gallina model SelModel.v (rank argument via Pascal's rule, completeness by counting). The model is tied "
                       "to util.rs by running the real iterator on every (n,k) up to the tier bound and comparing values, "
                       "size hints and binom exactly inside Coq.",
        "trusted_base": ["modelled, not verified: src/util.rs (KSelectionIterator::next, size_hint, binom); usize overflow of binom "
                         "is covered by C20_binom64 for n <= 57 only"],
        "assumptions": ["size_hint exactness is claimed for 1 <= k <= n only (for k = 0 the real size_hint reports 1 although "
                        "nothing is yielded; the property text does not cover that case)",
                        "the data slice is irrelevant: selections are determined by their index vectors"],
    },
}
