#!/usr/bin/env python3
"""cdecao verification driver:  check.py <property id> [--tier quick|thorough] [--replay FILE]

exit 0: the property held on everything explored (proofs check, axioms within allow-list, model = implementation,
        specification predicate true on every implementation output; listed known findings print KNOWN-FINDING lines)
exit 1: `VIOLATION property=<id> replay=<path>` (with a failing input), or
        `VIOLATION property=<id> replay=<path> ... no-failing-input-found` (a proof obligation or the correspondence broke
        and the search found no input on which the property itself fails; the replay file names what broke)
"""
import argparse
import json
import os
import sys
import time
import traceback

sys.path.insert(0, os.path.dirname(os.path.abspath(__file__)))
import vlib
from vlib import (BrokenBuild, BrokenProof, Violation, log, write_evidence, write_replay)

import props  # per-property correspondence logic


def main():
    ap = argparse.ArgumentParser()
    ap.add_argument("pid")
    ap.add_argument("--tier", default=os.environ.get("VERIF_TIER", "quick"))
    ap.add_argument("--replay", default=None)
    a = ap.parse_args()
    pid = a.pid
    tier = a.tier if a.tier in ("quick", "thorough") else "quick"
    try:
        seed = int(os.environ.get("VERIF_SEED", "20260926"))
    except ValueError:
        seed = 20260926
    if pid not in props.REGISTRY:
        print("unknown property %s" % pid)
        sys.exit(2)
    spec = props.REGISTRY[pid]
    t0 = time.time()
    ctx = props.Ctx(pid, tier, seed)
    violations = []   # list of (what, replay_path, no_input)
    known_lines = []
    coq_info = None
    broken = None
    try:
        # ---- steps 1-2: proofs
        try:
            coq_info = vlib.coq_side(pid, allow=spec.get("allow_axioms", ()))
            if tier == "thorough":
                coq_info.update(vlib.coqchk_props(pid))
        except BrokenProof as e:
            broken = ("proof", str(e))
        # ---- step 3: build the implementation + harness from /repo's current working tree
        if broken is None or True:
            try:
                vlib.build_harness()
            except BrokenBuild as e:
                broken = ("build", str(e)) if broken is None else broken
                raise Violation("the harness cannot be built against /repo: " + str(e)[:800],
                                write_replay(pid, seed, 0, {"property": pid, "kind": "no-failing-input-found",
                                                            "broken": "harness build (feature verif) against /repo",
                                                            "detail": str(e)[-3000:]}), no_input=True)
        # ---- step 4: correspondence + specification predicates on implementation outputs
        if a.replay:
            res = spec["replay"](ctx, a.replay)
        else:
            res = spec["run"](ctx, search=(broken is not None))
        violations += res.get("violations", [])
        known_lines += res.get("known", [])
        if broken is not None and not [v for v in violations if not v[2]]:
            # a proof obligation broke; the search above found no failing input
            rp = write_replay(pid, seed, 900, {"property": pid, "kind": "no-failing-input-found",
                                               "broken": "proof obligation / Coq development: " + broken[1][:4000],
                                               "searched": res.get("coverage", {}).get("evaluations", 0)})
            violations.append(("proof obligation no longer checks: " + broken[1][:300], rp, True))
    except Violation as v:
        violations.append((v.what, v.replay, v.no_input))
        res = {"coverage": {}}
    except Exception as e:
        # machinery failure: never silently pass
        tb = traceback.format_exc()
        log(tb)
        rp = write_replay(pid, seed, 999, {"property": pid, "kind": "no-failing-input-found",
                                           "broken": "verification machinery failed: " + str(e)[:3000], "trace": tb[-4000:]})
        violations.append(("machinery failure: " + str(e)[:300], rp, True))
        res = {"coverage": {}}
    wall = time.time() - t0
    cov = dict(res.get("coverage", {}))
    if coq_info:
        cov.update({"obligations": coq_info["obligations"], "discharged": coq_info["obligations"],
                    "property_theorems": coq_info["theorems"], "print_assumptions_results": coq_info["print_assumptions"],
                    "closed_under_global_context": coq_info["closed"], "axioms_reported": coq_info["axioms"],
                    "statements_pinned_by_Check": coq_info["checks_pinned"], "dependency_cone": coq_info["cone"]})
        if "coqchk_axioms" in coq_info:
            cov.update({"coqchk_axioms_in_closure": coq_info["coqchk_axioms"], "coqchk_seconds": coq_info["coqchk_seconds"]})
    else:
        cov.update({"obligations": 1, "discharged": 0})
    cov.setdefault("evaluations", 0)
    cov.setdefault("distinct_nontrivial", 0)
    cov.setdefault("samples", [])
    cov["checker_cmd"] = "cd /verif/coq && make -j16 (full .vo build with coqc 8.16.1) && coqc props/%s.v; " \
                         "correspondence: target/debug/vh ... && coqc work/%s/cases_*.v (vm_compute)" % (pid, pid)
    cov["trusted_base"] = vlib.TRUSTED_BASE_COMMON + spec.get("trusted_base", [])
    cov["explanation"] = spec.get("explanation", "")
    write_evidence(pid, tier, seed, cov, wall, len(violations), spec.get("assumptions", []))
    for k in known_lines:
        print("KNOWN-FINDING: property=%s %s" % (pid, k))
    if violations:
        for what, rp, no_input in violations[:5]:
            print("VIOLATION property=%s replay=%s %s%s" % (pid, rp, what.replace("\n", " ")[:300],
                                                           " no-failing-input-found" if no_input else ""))
        sys.exit(1)
    print("OK property=%s tier=%s evaluations=%s obligations=%s wall=%.1fs" % (
        pid, tier, cov.get("evaluations"), cov.get("obligations"), wall))
    sys.exit(0)


if __name__ == "__main__":
    main()
