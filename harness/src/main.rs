mod cli;
mod gate;
mod gen;
mod hung;
mod node;
mod qual;
mod rooms;
mod sched;
mod solve;
mod tree;
mod sel;

fn arg<T: std::str::FromStr>(args: &[String], name: &str, default: T) -> T {
    for i in 0..args.len() {
        if args[i] == name && i + 1 < args.len() {
            if let Ok(v) = args[i + 1].parse::<T>() {
                return v;
            }
        }
    }
    default
}

fn opt_arg(args: &[String], name: &str) -> Option<String> {
    for i in 0..args.len() {
        if args[i] == name && i + 1 < args.len() {
            return Some(args[i + 1].clone());
        }
    }
    None
}

fn main() {
    let args: Vec<String> = std::env::args().collect();
    if args.len() < 2 {
        eprintln!("usage: vh <sel|...> [options]");
        std::process::exit(2);
    }
    let outdir: String = arg(&args, "--out", String::from("."));
    let shards: usize = arg(&args, "--shards", 1usize);
    match args[1].as_str() {
        "sel" => sel::run(arg(&args, "--max-n", 10usize), shards, &outdir),
        "selp" => sel::run_prefix(
            arg(&args, "--min-n", 12usize),
            arg(&args, "--max-n", 18usize),
            arg(&args, "--steps", 40usize),
            &outdir,
        ),
        "hung" => hung::run(
            arg(&args, "--seed", 1u64),
            arg(&args, "--count", 100usize),
            arg(&args, "--max-dim", 10usize),
            shards,
            &outdir,
            opt_arg(&args, "--replay"),
            opt_arg(&args, "--exact-ny").map(|s| s.split(',').map(|x| x.parse().unwrap()).collect()).unwrap_or_default(),
        ),
        "node" => node::run(
            arg(&args, "--seed", 1u64),
            arg(&args, "--count", 100usize),
            arg(&args, "--max-c", 6usize),
            arg(&args, "--max-p", 9usize),
            arg(&args, "--rooms", 2usize),
            arg(&args, "--per-inst", 8usize),
            shards,
            &outdir,
            opt_arg(&args, "--replay"),
        ),
        "tree" => tree::run(
            tree::Plan {
                seed: arg(&args, "--seed", 1u64),
                trees: arg(&args, "--trees", 50usize),
                max_nodes: arg(&args, "--max-nodes", 10usize),
                scheds_per_tree: arg(&args, "--scheds", 6usize),
                panics: arg(&args, "--panics", 0usize) != 0,
                dfs_budget: arg(&args, "--dfs", 0usize),
                max_k: arg(&args, "--max-k", 4usize),
            },
            shards,
            &outdir,
            opt_arg(&args, "--replay"),
        ),
        "solve" => solve::run(
            solve::SPlan {
                seed: arg(&args, "--seed", 1u64),
                count: arg(&args, "--count", 50usize),
                max_c: arg(&args, "--max-c", 5usize),
                max_p: arg(&args, "--max-p", 8usize),
                rooms_mode: arg(&args, "--rooms", 2usize),
                scheds: arg(&args, "--scheds", 3usize),
                max_k: arg(&args, "--max-k", 4usize),
                brute_limit: arg(&args, "--brute-limit", 3_000_000u64),
                c17: arg(&args, "--c17", 0usize) != 0,
            },
            shards,
            &outdir,
            opt_arg(&args, "--replay"),
        ),
        "qual" => qual::run(arg(&args, "--seed", 1u64), arg(&args, "--count", 200usize), shards, &outdir),
        "cligen" => cli::run(
            arg(&args, "--seed", 1u64),
            arg(&args, "--count", 40usize),
            arg(&args, "--max-c", 6usize),
            arg(&args, "--max-p", 9usize),
            arg(&args, "--rooms", 2usize),
            &outdir,
        ),
        "rooms" => rooms::run(arg(&args, "--seed", 1u64), arg(&args, "--count", 200usize), shards, &outdir),
        "gate" => gate::run(arg(&args, "--seed", 1u64), arg(&args, "--count", 200usize), shards, &outdir),
        "probe" => cli::probe(&args),
        "cderead" => cli::cderead(&args),
        "simpleread" => cli::simpleread(&args),
        "roomsread" => cli::roomsread(&args),
        other => {
            eprintln!("unknown subcommand {}", other);
            std::process::exit(2);
        }
    }
}
