//! Shared helpers: PRNG (all randomness derives from one xorshift state) and printers of Gallina terms.
use std::fmt::Write;

pub struct Rng(pub u64);
impl Rng {
    pub fn new(seed: u64) -> Rng {
        let mut r = Rng(seed.wrapping_mul(0x9E3779B97F4A7C15) ^ 0xD1B54A32D192ED03);
        if r.0 == 0 {
            r.0 = 0x1234567;
        }
        for _ in 0..4 {
            r.next();
        }
        r
    }
    pub fn next(&mut self) -> u64 {
        let mut x = self.0;
        x ^= x << 13;
        x ^= x >> 7;
        x ^= x << 17;
        self.0 = x;
        x
    }
    /// uniform in 0..n (n > 0)
    pub fn below(&mut self, n: usize) -> usize {
        (self.next() % (n as u64)) as usize
    }
    /// uniform in lo..=hi
    pub fn range(&mut self, lo: usize, hi: usize) -> usize {
        lo + self.below(hi - lo + 1)
    }
    pub fn chance(&mut self, num: usize, den: usize) -> bool {
        self.below(den) < num
    }
    pub fn pick<'a, T>(&mut self, xs: &'a [T]) -> &'a T {
        &xs[self.below(xs.len())]
    }
    pub fn shuffle<T>(&mut self, xs: &mut [T]) {
        for i in (1..xs.len()).rev() {
            let j = self.below(i + 1);
            xs.swap(i, j);
        }
    }
}

pub fn g_list<T>(xs: &[T], f: impl Fn(&T) -> String) -> String {
    let mut s = String::from("[");
    for (i, x) in xs.iter().enumerate() {
        if i > 0 {
            s.push_str("; ");
        }
        s.push_str(&f(x));
    }
    s.push(']');
    s
}
pub fn g_nat(n: usize) -> String {
    // large unary numerals are expensive to parse and type-check: they are written as conversions of binary numbers
    if n < 256 {
        format!("{}%nat", n)
    } else {
        format!("(N.to_nat {}%N)", n)
    }
}
pub fn g_natlist(xs: &[usize]) -> String {
    g_list(xs, |x| g_nat(*x))
}
pub fn g_n(n: u128) -> String {
    format!("{}%N", n)
}
pub fn g_z(z: i128) -> String {
    if z < 0 {
        format!("({})%Z", z)
    } else {
        format!("{}%Z", z)
    }
}
pub fn g_bool(b: bool) -> String {
    String::from(if b { "true" } else { "false" })
}
pub fn g_boollist(xs: &[bool]) -> String {
    g_list(xs, |x| g_bool(*x))
}
pub fn g_opt<T>(x: &Option<T>, f: impl Fn(&T) -> String) -> String {
    match x {
        None => String::from("None"),
        Some(v) => format!("(Some {})", f(v)),
    }
}
/// a Coq string literal (bytes outside printable ASCII are written with the "\ddd"-free escape: we only emit
/// printable ASCII and double the quote character; other bytes must be passed as byte lists instead)
pub fn g_string(s: &str) -> String {
    let mut o = String::from("\"");
    for c in s.chars() {
        if c == '"' {
            o.push_str("\"\"");
        } else {
            o.push(c);
        }
    }
    o.push('"');
    o
}

/// Writes a cases file: `Definition cases := [...]. ` followed by one Eval printing the list of result codes.
pub fn cases_file(imports: &str, ty: &str, check: &str, cases: &[String]) -> String {
    let mut s = String::new();
    writeln!(s, "From Coq Require Import List NArith ZArith String.\nImport ListNotations.\n{}", imports).unwrap();
    writeln!(s, "Definition cases : list ({}) := [", ty).unwrap();
    for (i, c) in cases.iter().enumerate() {
        writeln!(s, "  {}{}", c, if i + 1 < cases.len() { ";" } else { "" }).unwrap();
    }
    writeln!(s, "].").unwrap();
    writeln!(s, "Eval vm_compute in map {} cases.", check).unwrap();
    s
}
