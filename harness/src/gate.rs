//! Room stage alone (check_room_feasibility / create_room_constraint_set) at realistic sizes: courses with minimum sizes up to 40,
//! factors and offsets that are not exactly representable, room sizes at the rounding-critical values.  Cheap for the Coq side
//! (no matching), so the binary32 arithmetic of the two size computations is compared at sizes the node stream cannot afford.
use crate::gen::*;
use crate::node::*;
use cdecao::caobab::verif_hooks::{precompute, problem_data, room_feasibility, VNode};
use serde_json::json;

const GF: [f32; 16] = [1.0, 1.2, 2.4, 0.3, 1.1, 1.7, 0.7, 1.3, 2.2, 1.05, 0.9, 3.3, 2.5, 1.5, 1.000_122_070_312_5, 1.000_976_562_5];
const GO: [f32; 11] = [0.0, 0.0, 0.1, 0.3, 1.0, 2.5, 7.7, 12.0, 0.000_976_562_5, 3.000_976_562_5, 0.000_488_281_25];

/// (factor, offset, m, room): the forward computation says that m people fit into the room (ceil(offset + factor * m) <= room) but the
/// inverse floor((room - offset) / factor) is smaller than m -- the rounding-critical combinations of the two binary32 computations
fn critical_triples() -> Vec<(f32, f32, usize, usize)> {
    let fs: [f32; 20] = [1.2, 2.4, 0.3, 1.1, 1.7, 0.7, 1.3, 2.2, 1.05, 0.9, 3.3, 0.6, 0.1, 0.2, 0.4, 0.8, 1.4, 1.6, 1.9, 2.3];
    let os: [f32; 16] = [0.0, 0.1, 0.2, 0.3, 0.4, 0.6, 0.7, 0.8, 0.9, 1.2, 2.4, 3.6, 4.8, 7.7, 0.15, 5.3];
    let mut v = Vec::new();
    for f in fs {
        for o in os {
            for m in 1..=45usize {
                let room = (o + f * m as f32).ceil() as usize;
                let inv = ((room as f32 - o) / f).floor() as usize;
                if inv < m {
                    v.push((f, o, m, room));
                }
            }
        }
    }
    v
}

pub fn run(seed: u64, count: usize, shards: usize, outdir: &str) {
    std::panic::set_hook(Box::new(|_| {}));
    let mut r = Rng::new(seed);
    let crit = critical_triples();
    let mut text: Vec<Vec<String>> = vec![Vec::new(); shards];
    let mut metas: Vec<Vec<serde_json::Value>> = vec![Vec::new(); shards];
    let mut hist = std::collections::BTreeMap::<String, usize>::new();
    for i in 0..count {
        // every 40th case is WIDE: 60-70 equal courses that all (or all but one) have to shrink to equally sized rooms -- the number of
        // constraint sets C(n, k) is small (k = n or n - 1) but n is beyond the range where util::binom's intermediate products fit
        let wide = i % 40 == 17;
        let nc = if wide { r.range(60, 70) } else { r.range(1, 4) };
        let mut courses: Vec<ICourse> = Vec::new();
        let mut next_p = 0usize;
        let mut a: Vec<Option<usize>> = Vec::new();
        let mut sizes: Vec<usize> = Vec::new();
        let mut crit_rooms: Vec<Option<usize>> = Vec::new();
        for c in 0..nc {
            let min = r.range(0, 40);
            let max = min + r.range(0, 20);
            let ninstr = r.below(3);
            let instr: Vec<usize> = (0..ninstr).map(|k| next_p + k).collect();
            let fbits = r.pick(&GF).to_bits();
            let obits = r.pick(&GO).to_bits();
            // people: around the minimum (the rounding-critical region), sometimes empty, sometimes full
            let att = match r.below(6) {
                0 => 0,
                1 => max,
                2 => min,
                _ => r.range(min.saturating_sub(2), (min + 3).min(max)),
            };
            // every third course sits on a rounding-critical combination: minimum + instructors = m (small m: minimum 0 and m
            // instructors included), a room of exactly the critical size is added below
            let critical = if !wide && !crit.is_empty() && r.chance(1, 3) { Some(*r.pick(&crit)) } else { None };
            let (min, max, ninstr, instr, fbits, obits, att) = match critical {
                Some((f, o, m, _)) => {
                    let ni = r.below(m.min(2) + 1);
                    let mn = m - ni;
                    let mx = mn + r.range(0, 20);
                    let at = match r.below(4) {
                        0 => mx,
                        1 => mn,
                        _ => r.range(mn, (mn + 3).min(mx)),
                    };
                    (mn, mx, ni, (0..ni).map(|k| next_p + k).collect::<Vec<usize>>(), f.to_bits(), o.to_bits(), at)
                }
                None => (min, max, ninstr, instr, fbits, obits, att),
            };
            crit_rooms.push(critical.map(|t| t.3));
            let (min, max, ninstr, instr, fbits, obits, att) = if wide { (0, 3, 0, Vec::new(), 1.0f32.to_bits(), 0.0f32.to_bits(), 2) } else { (min, max, ninstr, instr, fbits, obits, att) };
            // every fifth case: the first course is FIXED and EMPTY with a positive offset (it needs a room although nobody is assigned)
            let fixed_empty = !wide && i % 5 == 3 && c == 0;
            let obits = if fixed_empty { (*r.pick(&[1.0f32, 2.5, 3.0, 12.0, 0.5, 6.0])).to_bits() } else { obits };
            let (ninstr, instr) = if fixed_empty { (0, Vec::new()) } else { (ninstr, instr) };
            let cancelled_like = fixed_empty || (!wide && att == 0 && r.chance(1, 2));
            let people = if cancelled_like { 0 } else { att + ninstr };
            for _ in 0..people {
                a.push(Some(c));
            }
            for _ in people..ninstr {
                a.push(None);
            }
            next_p += people.max(ninstr);
            let fixed = fixed_empty || (!wide && r.chance(1, 6));
            if fixed_empty {
                *hist.entry(String::from("fixed_empty_course_with_offset")).or_insert(0) += 1;
            }
            let n = people;
            sizes.push(if n == 0 && !fixed { 0 } else { (f32::from_bits(obits) + f32::from_bits(fbits) * n as f32).ceil() as usize });
            courses.push(ICourse { min, max, instr, fixed, fbits, obits });
        }
        let np = a.len().max(1);
        while a.len() < np {
            a.push(None);
        }
        // rooms: around the sizes at minimum + instructors and the current sizes
        let mut rooms: Vec<usize> = Vec::new();
        for (ci, c) in courses.iter().enumerate() {
            let m = c.min + c.instr.len();
            let at_min = (f32::from_bits(c.obits) + f32::from_bits(c.fbits) * m as f32).ceil() as usize;
            let v = match if crit_rooms[ci].is_some() && r.chance(2, 3) { 6 } else { r.below(6) } {
                6 => crit_rooms[ci].unwrap(),
                0 => at_min,
                1 => at_min + 1,
                2 => at_min.saturating_sub(1),
                3 => sizes[ci],
                4 => sizes[ci].saturating_sub(r.range(1, 3)),
                _ => r.range(0, 80),
            };
            if crit_rooms[ci].is_some() || !r.chance(1, 8) {
                rooms.push(v);
            }
            if crit_rooms[ci].is_some() {
                *hist.entry(String::from("critical_course")).or_insert(0) += 1;
            }
        }
        if r.chance(1, 4) {
            rooms.push(r.range(0, 60));
        }
        if wide {
            let big = r.below(2);
            rooms = vec![1; nc - big];
            rooms.extend(vec![2; big]);
            *hist.entry(String::from("wide")).or_insert(0) += 1;
        }
        r.shuffle(&mut rooms);
        // every fourth case is DIRECTED at the constraints that always apply: a protected course A (fixed, or enforced in the node) that is
        // currently small (below its minimum) sits next to a larger course B whose room R is too small; A fits R as it is but not at its
        // minimum size -- it must neither be cancelled nor shrunk by the constraint sets
        let directed = !wide && i % 4 == 1;
        let mut protect_enforced: Option<usize> = None;
        if directed {
            courses.clear();
            a.clear();
            sizes.clear();
            let min_a = r.range(8, 40);
            let att_a = r.range(0, 3);
            let fixed_a = r.chance(2, 3);
            let size_a = if att_a == 0 && !fixed_a { 0 } else { att_a };
            let rr = r.range(size_a.max(1), min_a - 1);
            let att_b = rr + r.range(1, 12);
            courses.push(ICourse { min: min_a, max: min_a + r.range(0, 10), instr: vec![], fixed: fixed_a, fbits: 1.0f32.to_bits(), obits: 0.0f32.to_bits() });
            courses.push(ICourse { min: r.range(0, 5), max: att_b + r.range(0, 10), instr: vec![], fixed: r.chance(1, 6), fbits: 1.0f32.to_bits(), obits: 0.0f32.to_bits() });
            for _ in 0..att_a {
                a.push(Some(0));
            }
            for _ in 0..att_b {
                a.push(Some(1));
            }
            sizes.push(size_a);
            sizes.push(att_b);
            // four or five filler courses that fit the room R as they are: with them the window of the k-selections (MIN_K = 5 courses up to
            // the conflicting one) does not reach down to A, which is then touched by the constraints that always apply only
            let nfill = r.range(4, 5);
            rooms = vec![rr];
            for k in 0..nfill {
                let att_c = r.range((size_a + 1).min(rr), rr);
                courses.push(ICourse { min: 0, max: att_c + 3, instr: vec![], fixed: false, fbits: 1.0f32.to_bits(), obits: 0.0f32.to_bits() });
                for _ in 0..att_c {
                    a.push(Some(2 + k));
                }
                sizes.push(att_c);
                rooms.push(rr);
            }
            rooms.push(rr.min(size_a + r.range(0, 2)));
            r.shuffle(&mut rooms);
            if !fixed_a {
                protect_enforced = Some(0);
            }
            *hist.entry(String::from("directed_protected_course_in_the_always_set")).or_insert(0) += 1;
        }
        let np = a.len().max(1);
        let nc = courses.len();
        let inst = Inst { courses: courses.clone(), parts: vec![Vec::new(); np], rooms: Some(rooms.clone()), style: String::from("gate") };
        let (cs, ps) = build(&inst);
        // node: root, or some shrinks / enforced / cancelled courses
        let mut nd = VNode { cancelled: vec![], enforced: vec![], shrinked: vec![] };
        if let Some(c) = protect_enforced {
            nd.enforced.push(c);
        }
        for c in 0..(if wide || directed { 0 } else { nc }) {
            match r.below(8) {
                0 => {
                    if sizes[c] == 0 && !courses[c].fixed {
                        nd.cancelled.push(c)
                    }
                }
                1 => nd.enforced.push(c),
                2 => nd.shrinked.push((c, r.range(courses[c].min, courses[c].max.max(courses[c].min)))),
                _ => {}
            }
        }
        let prob = precompute(&cs, &ps, Some(&rooms));
        // the prepared room list; None = precompute_problem dropped the list although one was given: then no node is ever checked against
        // the rooms, i.e. the stage reports "no conflict" for every assignment
        let prepared = std::panic::catch_unwind(|| problem_data(&prob).6).unwrap_or(None);
        let a2 = a.clone();
        let nd2 = nd.clone();
        let res = match prepared {
            Some(prepared) => std::panic::catch_unwind(move || room_feasibility(&cs, &a2, &prepared, &nd2)),
            None => {
                *hist.entry(String::from("impl_dropped_room_list")).or_insert(0) += 1;
                Ok((true, None))
            }
        };
        let (g_exp, j_exp) = match &res {
            Err(_) => (String::from("GPanic"), json!("panic")),
            Ok((feasible, sets)) => {
                *hist.entry(String::from(if *feasible { "feasible" } else { "conflict" })).or_insert(0) += 1;
                match sets {
                    None => (format!("(GRes {} None)", g_bool(*feasible)), json!({"feasible": feasible, "sets": null})),
                    Some(v) => (
                        format!(
                            "(GRes {} (Some {}))",
                            g_bool(*feasible),
                            g_list(v, |(sh, ca)| format!("({}, {})", g_list(sh, |(c, s)| format!("({}, {})", g_nat(*c), g_nat(*s))), g_natlist(ca)))
                        ),
                        json!({"feasible": feasible, "sets": v}),
                    ),
                }
            }
        };
        if res.is_err() {
            *hist.entry(String::from("impl_panic")).or_insert(0) += 1;
        }
        let (gc, _, _) = g_inst_parts(&inst);
        let case = format!("({}, {}, {}, {}, {})", gc, g_natlist(&rooms), g_node(&nd), g_assignment(&a), g_exp);
        text[i % shards].push(case);
        metas[i % shards].push(json!({"inst_courses": j_inst(&inst)["courses"], "rooms": rooms, "node": {"cancelled": nd.cancelled, "enforced": nd.enforced, "shrinked": nd.shrinked},
            "assignment": a, "impl": j_exp}));
    }
    for s in 0..shards {
        if text[s].is_empty() {
            continue;
        }
        let f = cases_file("Require Import CorrNode CorrGate.\nOpen Scope nat_scope.\nOpen Scope list_scope.", "gate_case", "check_gate", &text[s]);
        std::fs::write(format!("{}/cases_gate_{:02}.v", outdir, s), f).unwrap();
        std::fs::write(format!("{}/cases_gate_{:02}.json", outdir, s), serde_json::to_string(&metas[s]).unwrap()).unwrap();
    }
    println!("{}", json!({"cases": count, "hist": hist}));
}
