//! Whole solves (C01, C02, C03, C06, C08, C10, C17): the real caobab::solve under the scheduler shim; the recorded history is
//! replayed in Coq through the engine model and the node model, the result is checked against the executable specification.
use crate::gen::*;
use crate::node::*;
use crate::sched::*;
use crate::tree::g_ev;
use cdecao::caobab::solution_score::QualityInfo;
use cdecao::caobab::verif_hooks::VNode;
use cdecao::verif::sync;
use serde_json::json;
use std::sync::{Arc, Mutex};

pub struct SRun {
    pub events: Vec<Ev>,
    pub result: Option<(Vec<Option<usize>>, u32)>,
    pub outcome: usize,
    pub stats: Vec<u64>,
    pub quality: Option<(u32, u32, u32, u32)>,
    pub problems: Vec<String>,
    pub log: ChoiceLog,
}

pub fn run_solve(inst: &Inst, k: usize, chooser_of: impl FnOnce(Arc<Mutex<ChoiceLog>>) -> sync::Chooser, spurious: bool) -> SRun {
    let log = Arc::new(Mutex::new(ChoiceLog::default()));
    let chooser = chooser_of(log.clone());
    let (courses, parts) = build(inst);
    let (courses, parts) = (Arc::new(courses), Arc::new(parts));
    let rooms = inst.rooms.clone();
    let (c2, p2) = (courses.clone(), parts.clone());
    let rr = sync::run(chooser, spurious, move || cdecao::caobab::solve(c2, p2, rooms.as_ref(), false, k as u32));
    let conv = convert(&rr.trace, k);
    let (result, outcome, stats) = match rr.result {
        None => (None, 1, vec![]),
        Some(Err(_)) => (None, if rr.deadlock { 1 } else { 2 }, vec![]),
        Some(Ok((res, st))) => (
            res,
            if rr.deadlock { 1 } else { 0 },
            vec![
                st.num_executed_subproblems as u64,
                st.num_no_solution as u64,
                st.num_infeasible as u64,
                st.num_feasible as u64,
                st.num_bound_subproblems as u64,
            ],
        ),
    };
    let quality = match &result {
        Some((_, score)) => {
            let (c3, p3, s) = (courses.clone(), parts.clone(), *score);
            std::panic::catch_unwind(move || {
                let q = QualityInfo::calculate(s, &p3, &c3, None);
                (q.solution_score, q.theoretical_max_score, q.solution_quality.to_bits(), q.theoretical_max_quality.to_bits())
            })
            .ok()
        }
        None => None,
    };
    let l = log.lock().unwrap().clone();
    SRun { events: conv.events, result, outcome, stats, quality, problems: conv.problems, log: l }
}

/// parses the Debug output of one or several BABNode values
pub fn parse_nodes(s: &str) -> Vec<VNode> {
    let mut out = Vec::new();
    let mut rest = s;
    while let Some(pos) = rest.find("BABNode {") {
        rest = &rest[pos + 9..];
        let list_after = |key: &str, r: &str| -> (String, usize) {
            let p = r.find(key).unwrap() + key.len();
            let open = r[p..].find('[').unwrap() + p;
            // matching bracket
            let mut depth = 0;
            let mut end = open;
            for (i, ch) in r[open..].char_indices() {
                if ch == '[' {
                    depth += 1;
                } else if ch == ']' {
                    depth -= 1;
                    if depth == 0 {
                        end = open + i;
                        break;
                    }
                }
            }
            (r[open + 1..end].to_string(), end)
        };
        let (ca, _) = list_after("cancelled_courses:", rest);
        let (en, _) = list_after("enforced_courses:", rest);
        let (sh, e3) = list_after("shrinked_courses:", rest);
        let nums = |t: &str| -> Vec<usize> {
            t.split(|c: char| !c.is_ascii_digit()).filter(|x| !x.is_empty()).map(|x| x.parse().unwrap()).collect()
        };
        let shn = nums(&sh);
        out.push(VNode {
            cancelled: nums(&ca),
            enforced: nums(&en),
            shrinked: shn.chunks(2).map(|c| (c[0], c[1])).collect(),
        });
        rest = &rest[e3..];
    }
    out
}

/// exact optimum over all assignments satisfying the hard constraints (any subset of the non-fixed courses may be cancelled);
/// returns the best assignment and its score, None if there is none; gives up (Err) beyond a work limit
pub fn brute_force(inst: &Inst, limit: u64) -> Result<Option<(Vec<Option<usize>>, u64)>, ()> {
    brute_force_opt(inst, limit, false)
}

/// `nofree`: only cancellation sets that do NOT cancel a course one of whose instructors has own choices ("no instructor is freed").  The
/// optimum over these is what the search must reach even in class TC: defect D2 is that the tree never cancels a course in order to free
/// its instructor.
pub fn brute_force_opt(inst: &Inst, limit: u64, nofree: bool) -> Result<Option<(Vec<Option<usize>>, u64)>, ()> {
    let nc = inst.courses.len();
    let np = inst.parts.len();
    let mut best: Option<(Vec<Option<usize>>, u64)> = None;
    let mut work = 0u64;
    let instr_of: Vec<Option<usize>> = (0..np).map(|p| inst.courses.iter().position(|c| c.instr.contains(&p))).collect();
    for kmask in 0u32..(1 << nc) {
        if (0..nc).any(|c| kmask >> c & 1 == 1 && inst.courses[c].fixed) {
            continue;
        }
        if nofree && (0..nc).any(|c| kmask >> c & 1 == 1 && inst.courses[c].instr.iter().any(|p| !inst.parts[*p].is_empty())) {
            continue;
        }
        let cancelled = |c: usize| kmask >> c & 1 == 1;
        // fixed part
        let mut a: Vec<Option<usize>> = vec![None; np];
        let mut free: Vec<usize> = Vec::new();
        let mut base_score = 0u64;
        let mut ok = true;
        for p in 0..np {
            match instr_of[p] {
                Some(c) if !cancelled(c) => {
                    a[p] = Some(c);
                    if !inst.parts[p].is_empty() {
                        base_score += 50000;
                    }
                }
                _ => {
                    if !inst.parts[p].is_empty() {
                        free.push(p);
                        if !inst.parts[p].iter().any(|(c, _)| !cancelled(*c)) {
                            ok = false;
                        }
                    }
                }
            }
        }
        if !ok {
            continue;
        }
        let mut cnt = vec![0usize; nc];
        fn rec(
            i: usize,
            free: &[usize],
            inst: &Inst,
            kmask: u32,
            cnt: &mut Vec<usize>,
            a: &mut Vec<Option<usize>>,
            score: u64,
            best: &mut Option<(Vec<Option<usize>>, u64)>,
            work: &mut u64,
            limit: u64,
        ) -> Result<(), ()> {
            *work += 1;
            if *work > limit {
                return Err(());
            }
            if i == free.len() {
                for (c, co) in inst.courses.iter().enumerate() {
                    if kmask >> c & 1 == 0 && cnt[c] < co.min {
                        return Ok(());
                    }
                }
                if best.as_ref().map(|b| score > b.1).unwrap_or(true) {
                    *best = Some((a.clone(), score));
                }
                return Ok(());
            }
            let p = free[i];
            for (c, pen) in inst.parts[p].iter() {
                if kmask >> c & 1 == 1 || cnt[*c] >= inst.courses[*c].max {
                    continue;
                }
                cnt[*c] += 1;
                a[p] = Some(*c);
                rec(i + 1, free, inst, kmask, cnt, a, score + 50000 - *pen as u64, best, work, limit)?;
                a[p] = None;
                cnt[*c] -= 1;
            }
            Ok(())
        }
        rec(0, &free, inst, kmask, &mut cnt, &mut a, base_score, &mut best, &mut work, limit)?;
    }
    Ok(best)
}

/// a room list that cannot bind: as many rooms as courses (plus some), each at least as large as any course can become
pub fn nonbinding_rooms(r: &mut Rng, inst: &Inst) -> Vec<usize> {
    let mut top = 0usize;
    for c in inst.courses.iter() {
        let f = f32::from_bits(c.fbits);
        let o = f32::from_bits(c.obits);
        for s in 0..=(c.max + c.instr.len()) {
            let e = (o + f * s as f32).ceil() as usize;
            top = top.max(e);
        }
    }
    let n = inst.courses.len() + r.below(3);
    let exact = r.chance(1, 2);
    (0..n).map(|_| if exact { top } else { top + r.below(3) }).collect()
}

pub fn g_solve_case(inst: &Inst, k: usize, run: &SRun, better: &Option<Vec<Option<usize>>>) -> String {
    let node = |s: &str| -> String {
        let v = parse_nodes(s);
        g_node(&v[0])
    };
    let nodes = |s: &str| -> String { g_list(&parse_nodes(s), g_node) };
    format!(
        "({}, {}, {}, {}, {}, {}, {}, {})",
        g_inst(inst),
        k,
        g_list(&run.events, |e| g_ev(e, &node, &nodes)),
        match &run.result {
            None => String::from("None"),
            Some((a, s)) => format!("Some ({}, {}%Z)", g_assignment(a), s),
        },
        run.outcome,
        g_list(&run.stats, |x| g_n(*x as u128)),
        match &run.quality {
            None => String::from("None"),
            Some((a, b, c, d)) => format!("Some ({}%Z, {}%Z, {}%Z, {}%Z)", a, b, c, d),
        },
        g_opt(better, |a| g_assignment(a))
    )
}

pub struct SPlan {
    pub seed: u64,
    pub count: usize,
    pub max_c: usize,
    pub max_p: usize,
    pub rooms_mode: usize,
    pub scheds: usize,
    pub max_k: usize,
    pub brute_limit: u64,
    pub c17: bool,
}

pub fn run(plan: SPlan, shards: usize, outdir: &str, replay: Option<String>) {
    std::panic::set_hook(Box::new(|_| {}));
    let mut r = Rng::new(plan.seed);
    let mut cases: Vec<(String, serde_json::Value)> = Vec::new();
    let mut hist = std::collections::BTreeMap::<String, usize>::new();
    let mut emit = |inst: &Inst, id: usize, variant: &str, k: usize, kind: &str, sp: bool, run: SRun, bf: &Option<Option<(Vec<Option<usize>>, u64)>>,
                    hist: &mut std::collections::BTreeMap<String, usize>| {
        *hist.entry(format!("sched:{}", kind)).or_insert(0) += 1;
        *hist.entry(format!("workers:{}", k)).or_insert(0) += 1;
        *hist.entry(format!("outcome:{}", ["returned", "deadlock", "panic"][run.outcome])).or_insert(0) += 1;
        *hist.entry(String::from(if run.result.is_some() { "result:solution" } else { "result:none" })).or_insert(0) += 1;
        *hist.entry(format!("solved_nodes:{:02}-", run.stats.first().copied().unwrap_or(0) / 5 * 5)).or_insert(0) += 1;
        // a better hard-feasible assignment than the reported one, if the exact search knows one (certified in Coq)
        let better = match bf {
            Some(Some((a, s))) => match &run.result {
                Some((_, rs)) if (*rs as u64) >= *s => None,
                _ => Some(a.clone()),
            },
            _ => None,
        };
        let meta = json!({"inst": j_inst(inst), "id": id, "variant": variant, "k": k, "sched": kind, "spurious": sp,
            "choices": run.log.choices, "outcome": run.outcome,
            "result": run.result.as_ref().map(|(a, s)| json!({"assignment": a, "score": s})),
            "stats": run.stats, "problems": run.problems, "events": run.events.len(),
            "brute_force": match bf { None => json!("not computed"), Some(None) => json!("no feasible assignment"),
                                      Some(Some((a, s))) => json!({"assignment": a, "score": s}) },
            "brute_force_nofree": match bf { None => json!("not computed"),
                                             Some(_) => match brute_force_opt(inst, 4_000_000, true) { Err(_) => json!("not computed"), Ok(None) => json!("no feasible assignment"),
                                                                                                       Ok(Some((a, s))) => json!({"assignment": a, "score": s}) } }});
        cases.push((g_solve_case(inst, k, &run, &better), meta));
    };
    if let Some(path) = replay {
        let v: serde_json::Value = serde_json::from_str(&std::fs::read_to_string(path).unwrap()).unwrap();
        let list = if v.is_array() { v.as_array().unwrap().clone() } else { vec![v] };
        for (id, m) in list.iter().enumerate() {
            let inst = inst_from_json(&m["inst"]);
            let k = m["k"].as_u64().unwrap_or(1) as usize;
            let choices: Vec<usize> = m["choices"].as_array().map(|a| a.iter().map(|x| x.as_u64().unwrap() as usize).collect()).unwrap_or_default();
            let sp = m["spurious"].as_bool().unwrap_or(false);
            let bf = if inst.rooms.is_none() { brute_force(&inst, plan.brute_limit).ok() } else { None };
            let run = run_solve(&inst, k, |log| replay_chooser(choices, log), sp);
            emit(&inst, id, "replay", k, "replay", sp, run, &bf, &mut hist);
        }
    } else {
        for id in 0..plan.count {
            let mc = 1 + (plan.max_c - 1) * (id + 1) / plan.count.max(1);
            let mp = 1 + (plan.max_p - 1) * (id + 1) / plan.count.max(1);
            let mut inst = gen_inst(&mut r, mc.max(1), mp.max(1), if plan.c17 { 3 } else { plan.rooms_mode });
            if plan.c17 {
                inst.rooms = None;
            }
            if inst.parts.iter().enumerate().any(|(p, ch)| !ch.is_empty() && inst.courses.iter().any(|c| c.instr.contains(&p))) {
                *hist.entry(String::from("class_TC(instructor with choices)")).or_insert(0) += 1;
            }
            *hist.entry(String::from(if inst.rooms.is_some() { "with_rooms" } else { "without_rooms" })).or_insert(0) += 1;
            let bf = if inst.rooms.is_none() { brute_force(&inst, plan.brute_limit).ok() } else { None };
            match &bf {
                None => *hist.entry(String::from("brute_force:not computed")).or_insert(0) += 1,
                Some(None) => *hist.entry(String::from("brute_force:infeasible instance")).or_insert(0) += 1,
                Some(Some(_)) => *hist.entry(String::from("brute_force:feasible instance")).or_insert(0) += 1,
            }
            let mut variants: Vec<(String, Inst)> = vec![(String::from("base"), inst.clone())];
            if plan.c17 {
                let mut i2 = inst.clone();
                i2.rooms = Some(nonbinding_rooms(&mut r, &inst));
                variants.push((String::from("nonbinding_rooms"), i2));
                let mut i3 = inst.clone();
                let mut rs = nonbinding_rooms(&mut r, &inst);
                // an arbitrary (possibly binding) list derived from it
                for x in rs.iter_mut() {
                    if r.chance(1, 2) {
                        *x = r.below(*x + 1);
                    }
                }
                if r.chance(1, 3) {
                    rs.pop();
                }
                i3.rooms = Some(rs);
                variants.push((String::from("arbitrary_rooms"), i3));
                // rooms that starve one course: every room below its minimal room need (a fixed course if there is one): the course can
                // never take place, a fixed one makes the instance infeasible with this list
                let fixed: Vec<usize> = (0..inst.courses.len()).filter(|&c| inst.courses[c].fixed).collect();
                let t = if !fixed.is_empty() && r.chance(3, 4) { fixed[r.below(fixed.len())] } else { r.below(inst.courses.len()) };
                let tc = &inst.courses[t];
                let need = (f32::from_bits(tc.obits) + f32::from_bits(tc.fbits) * (tc.min + tc.instr.len()) as f32).ceil() as usize;
                if need > 0 {
                    let mut i4 = inst.clone();
                    let n = inst.courses.len() + r.below(2);
                    i4.rooms = Some((0..n).map(|_| if r.chance(1, 2) { need - 1 } else { r.below(need) }).collect());
                    variants.push((String::from("starved_rooms"), i4));
                }
            }
            for (vname, vi) in variants.iter() {
                let vbf = if vi.rooms.is_none() { bf.clone() } else { None };
                for si in 0..plan.scheds {
                    let k = if si == 0 { 1 } else { r.range(2, plan.max_k.max(2)) };
                    let sp = si > 0 && r.chance(1, 4);
                    let seed = r.next();
                    let (kind, run) = match si {
                        0 => ("first", run_solve(vi, k, |log| replay_chooser(vec![], log), false)),
                        x if x % 2 == 1 => ("random", run_solve(vi, k, |log| random_chooser(seed, log), sp)),
                        _ => ("pct", run_solve(vi, k, |log| pct_chooser(seed, 3, log), sp)),
                    };
                    emit(vi, id, vname, k, kind, sp, run, &vbf, &mut hist);
                }
            }
        }
    }
    let mut text: Vec<Vec<String>> = vec![Vec::new(); shards];
    let mut metas: Vec<Vec<serde_json::Value>> = vec![Vec::new(); shards];
    for (i, (t, m)) in cases.iter().enumerate() {
        text[i % shards].push(t.clone());
        metas[i % shards].push(m.clone());
    }
    for s in 0..shards {
        if text[s].is_empty() {
            continue;
        }
        let f = cases_file("Require Import CorrTree CorrNode CorrSolve.\nOpen Scope nat_scope.\nOpen Scope list_scope.", "solve_case", "check_solve", &text[s]);
        std::fs::write(format!("{}/cases_solve_{:02}.v", outdir, s), f).unwrap();
        std::fs::write(format!("{}/cases_solve_{:02}.json", outdir, s), serde_json::to_string(&metas[s]).unwrap()).unwrap();
    }
    println!("{}", json!({"cases": cases.len(), "hist": hist}));
}
