//! C07: hungarian_algorithm on generated masked weight matrices.
use crate::gen::*;
use cdecao::verif::{hungarian_algorithm, last_labels};
use ndarray::{Array1, Array2};
use serde_json::json;

pub struct HCase {
    pub w: Vec<Vec<i32>>,
    pub dx: Vec<bool>,
    pub my: Vec<bool>,
    pub sx: Vec<bool>,
    pub sy: Vec<bool>,
    pub style: &'static str,
}

/// dummy rows that carry (large) weights on a plain column, real rows that all want another plain column, every other column
/// mandatory: an alternating tree rooted at a dummy row then consists of dummy rows only, and the only allowed column outside
/// the tree already carries a large column label (the minimal slack of the label update exceeds every initial row label)
fn gen_dummy_tree(r: &mut Rng) -> HCase {
    let d = r.range(2, 3);
    let reals = r.range(d, d + 1);
    let n = d + reals;
    let big = *r.pick(&[7i32, 49997, 50000, (1 << 20) - 1, 1000]);
    let big2 = if r.chance(1, 2) { big } else { *r.pick(&[5i32, 49999, (1 << 20) - 1]) };
    let mut cols: Vec<usize> = (0..n).collect();
    r.shuffle(&mut cols);
    // plain columns: d of them (cols[0..d]); real rows want cols[0], dummy rows want cols[1]; the rest is mandatory
    let mut my = vec![true; n];
    for c in cols.iter().take(d) {
        my[*c] = false;
    }
    let dummy_first = r.chance(2, 3);
    let mut dx = vec![false; n];
    for i in 0..d {
        dx[if dummy_first { i } else { n - 1 - i }] = true;
    }
    let noise = r.chance(1, 3);
    let mut w = vec![vec![0i32; n]; n];
    for x in 0..n {
        for y in 0..n {
            if noise {
                w[x][y] = r.below(3) as i32;
            }
        }
        if dx[x] {
            w[x][cols[1]] = big;
        } else {
            w[x][cols[0]] = big2;
        }
    }
    HCase { w, dx, my, sx: vec![false; n], sy: vec![false; n], style: "dummytree" }
}

pub fn gen_case(r: &mut Rng, max_dim: usize) -> HCase {
    if max_dim >= 6 && r.chance(1, 10) {
        return gen_dummy_tree(r);
    }
    let a = r.range(1, max_dim); // number of active rows = active columns
    let extra_x = if r.chance(1, 2) { r.range(0, 3) } else { 0 };
    let extra_y = if r.chance(1, 2) { r.range(0, 3) } else { 0 };
    let (nx, ny) = (a + extra_x, a + extra_y);
    let mut sx = vec![false; nx];
    let mut sy = vec![false; ny];
    let mut ix: Vec<usize> = (0..nx).collect();
    r.shuffle(&mut ix);
    for i in 0..extra_x {
        sx[ix[i]] = true;
    }
    let mut iy: Vec<usize> = (0..ny).collect();
    r.shuffle(&mut iy);
    for i in 0..extra_y {
        sy[iy[i]] = true;
    }
    let styles = ["zero", "binary", "ties", "caobab", "large", "small"];
    let style = *r.pick(&styles);
    // dummy rows: a suffix (as caobab builds them) or random
    let mut dx = vec![false; nx];
    let ndummy = if r.chance(2, 3) { r.range(0, nx / 2) } else { 0 };
    if r.chance(3, 4) {
        for i in 0..ndummy {
            dx[nx - 1 - i] = true;
        }
    } else {
        for _ in 0..ndummy {
            let i = r.below(nx);
            dx[i] = true;
        }
    }
    let mut w = vec![vec![0i32; ny]; nx];
    match style {
        "zero" => {}
        "binary" => {
            for x in 0..nx {
                for y in 0..ny {
                    w[x][y] = r.below(2) as i32;
                }
            }
        }
        "ties" => {
            for x in 0..nx {
                for y in 0..ny {
                    w[x][y] = r.below(4) as i32;
                }
            }
        }
        "small" => {
            for x in 0..nx {
                for y in 0..ny {
                    w[x][y] = r.below(60) as i32;
                }
            }
        }
        "large" => {
            for x in 0..nx {
                for y in 0..ny {
                    w[x][y] = r.below(1 << 20) as i32;
                }
            }
        }
        _ => {
            // caobab: columns in blocks of equal courses, rows choose a few courses with 50000 - penalty, dummies zero
            let mut blocks: Vec<usize> = Vec::new();
            let mut c = 0;
            while blocks.len() < ny {
                let len = r.range(1, 4);
                for _ in 0..len {
                    if blocks.len() < ny {
                        blocks.push(c);
                    }
                }
                c += 1;
            }
            let ncourses = c;
            for x in 0..nx {
                if dx[x] {
                    continue;
                }
                let nch = r.range(0, 3);
                for p in 0..nch {
                    let ch = r.below(ncourses);
                    let pen = if r.chance(1, 2) { p as i32 } else { (p * p) as i32 };
                    for y in 0..ny {
                        if blocks[y] == ch {
                            w[x][y] = 50000 - pen;
                        }
                    }
                }
            }
        }
    }
    // mandatory columns
    let mut my = vec![false; ny];
    let real_active = (0..nx).filter(|x| !sx[*x] && !dx[*x]).count();
    let want_unsat = r.chance(1, 12);
    let mut cols: Vec<usize> = (0..ny).collect();
    r.shuffle(&mut cols);
    let mut nmand_active = 0;
    let target = if want_unsat {
        real_active + 1 + r.below(2)
    } else if r.chance(1, 3) {
        0
    } else {
        r.range(0, real_active)
    };
    for y in cols {
        if sy[y] {
            if r.chance(1, 4) {
                my[y] = true;
            }
            continue;
        }
        if nmand_active < target {
            my[y] = true;
            nmand_active += 1;
        }
    }
    HCase {
        w,
        dx,
        my,
        sx,
        sy,
        style,
    }
}

pub type HOut = Option<(Vec<usize>, u32, Vec<i32>, Vec<i32>)>;

pub fn run_impl(c: &HCase) -> HOut {
    let nx = c.w.len();
    let ny = c.my.len();
    // the memory layout is not part of the contract: every third matrix (by its content) is handed over in column-major order
    use ndarray::ShapeBuilder;
    let colmajor = (c.w.iter().flatten().map(|z| *z as i64).sum::<i64>() + nx as i64) % 3 == 0;
    let mut a = if colmajor { Array2::<i32>::zeros((nx, ny).f()) } else { Array2::<i32>::zeros([nx, ny]) };
    for x in 0..nx {
        for y in 0..ny {
            a[[x, y]] = c.w[x][y];
        }
    }
    let dx = Array1::from_vec(c.dx.clone());
    let my = Array1::from_vec(c.my.clone());
    let sx = Array1::from_vec(c.sx.clone());
    let sy = Array1::from_vec(c.sy.clone());
    let r = std::panic::catch_unwind(move || {
        let (m, s) = hungarian_algorithm(&a, &dx, &my, &sx, &sy);
        let (lx, ly) = last_labels();
        (m.to_vec(), s, lx, ly)
    });
    r.ok()
}

pub fn g_case(c: &HCase, out: &HOut) -> String {
    format!(
        "({}, {}, {}, {}, {}, {})",
        g_list(&c.w, |row| g_list(row, |z| g_z(*z as i128))),
        g_boollist(&c.dx),
        g_boollist(&c.my),
        g_boollist(&c.sx),
        g_boollist(&c.sy),
        match out {
            None => String::from("None"),
            Some((m, s, lx, ly)) => format!(
                "Some ({}, {}, {}, {})",
                g_natlist(m),
                g_z(*s as i128),
                g_list(lx, |z| g_z(*z as i128)),
                g_list(ly, |z| g_z(*z as i128))
            ),
        }
    )
}

pub fn meta(c: &HCase, out: &HOut) -> serde_json::Value {
    json!({"w": c.w, "dx": c.dx, "my": c.my, "sx": c.sx, "sy": c.sy, "style": c.style,
           "impl": out.as_ref().map(|(m, s, lx, ly)| json!({"matching": m, "score": s, "lx": lx, "ly": ly}))})
}

pub fn case_from_json(v: &serde_json::Value) -> HCase {
    let b = |k: &str| -> Vec<bool> {
        v[k].as_array()
            .unwrap()
            .iter()
            .map(|x| x.as_bool().unwrap())
            .collect()
    };
    HCase {
        w: v["w"]
            .as_array()
            .unwrap()
            .iter()
            .map(|r| {
                r.as_array()
                    .unwrap()
                    .iter()
                    .map(|x| x.as_i64().unwrap() as i32)
                    .collect()
            })
            .collect(),
        dx: b("dx"),
        my: b("my"),
        sx: b("sx"),
        sy: b("sy"),
        style: "replay",
    }
}

pub fn write_cases(cases: &[(HCase, HOut)], shards: usize, outdir: &str) {
    let mut text: Vec<Vec<String>> = vec![Vec::new(); shards];
    let mut metas: Vec<Vec<serde_json::Value>> = vec![Vec::new(); shards];
    for (i, (c, o)) in cases.iter().enumerate() {
        text[i % shards].push(g_case(c, o));
        metas[i % shards].push(meta(c, o));
    }
    for s in 0..shards {
        if text[s].is_empty() {
            continue;
        }
        let f = cases_file(
            "Require Import CorrHung.\nOpen Scope list_scope.",
            "hung_case",
            "check_hung",
            &text[s],
        );
        std::fs::write(format!("{}/cases_hung_{:02}.v", outdir, s), f).unwrap();
        std::fs::write(
            format!("{}/cases_hung_{:02}.json", outdir, s),
            serde_json::to_string(&metas[s]).unwrap(),
        )
        .unwrap();
    }
}

/// a case whose number of columns is exactly `ny` (rejection sampling over gen_case): used for the sizes at which a packed representation
/// of column sets (machine words of 64 bits) has no spare bits
pub fn gen_case_ny(r: &mut Rng, ny: usize) -> HCase {
    for _ in 0..20000 {
        let c = gen_case(r, ny);
        if c.sy.len() == ny {
            return c;
        }
    }
    gen_case(r, ny)
}

pub fn run(seed: u64, count: usize, max_dim: usize, shards: usize, outdir: &str, replay: Option<String>, exact: Vec<usize>) {
    std::panic::set_hook(Box::new(|_| {}));
    let mut cases = Vec::new();
    if let Some(path) = replay {
        let v: serde_json::Value = serde_json::from_str(&std::fs::read_to_string(path).unwrap()).unwrap();
        let list = if v.is_array() { v.as_array().unwrap().clone() } else { vec![v] };
        for m in list {
            let c = case_from_json(&m);
            let o = run_impl(&c);
            cases.push((c, o));
        }
    } else {
        let mut r = Rng::new(seed);
        for i in 0..count {
            // sizes grow with the index so that small cases (easy to read in a replay) come first
            let md = 1 + (max_dim - 1) * (i + 1) / count.max(1);
            let c = if exact.is_empty() { gen_case(&mut r, md.max(1)) } else { gen_case_ny(&mut r, exact[i % exact.len()]) };
            let o = run_impl(&c);
            cases.push((c, o));
        }
    }
    let mut styles = std::collections::BTreeMap::new();
    let mut panics = 0;
    let mut dims = std::collections::BTreeMap::new();
    for (c, o) in cases.iter() {
        *styles.entry(c.style).or_insert(0usize) += 1;
        if o.is_none() {
            panics += 1;
        }
        *dims.entry(c.w.len().max(c.my.len()) / 5 * 5).or_insert(0usize) += 1;
    }
    write_cases(&cases, shards, outdir);
    println!(
        "{}",
        json!({"cases": cases.len(), "styles": styles, "impl_panics": panics, "dims_hist_by_5": dims})
    );
}
