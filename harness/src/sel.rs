//! C20: the k-subset iterator and binom of util.rs on every (n, k) up to a bound.
use crate::gen::*;
use cdecao::verif::{binom, IterSelections};
use serde_json::json;

pub fn run(max_n: usize, shards: usize, outdir: &str) {
    let mut cases: Vec<Vec<String>> = vec![Vec::new(); shards];
    let mut meta: Vec<Vec<serde_json::Value>> = vec![Vec::new(); shards];
    let mut total_vectors = 0usize;
    let mut idx = 0usize;
    // large n first so that the shards are balanced
    for n in (0..=max_n).rev() {
        for k in 0..=(n + 2) {
            let data: Vec<usize> = (0..n).collect();
            let mut it = data[..].iter_selections(k);
            let mut hints: Vec<u128> = Vec::new();
            let mut vals: Vec<Vec<usize>> = Vec::new();
            let mut hint_consistent = true;
            loop {
                let (lo, hi) = it.size_hint();
                if hi != Some(lo) {
                    hint_consistent = false;
                }
                hints.push(lo as u128);
                match it.next() {
                    Some(v) => vals.push(v.into_iter().copied().collect()),
                    None => break,
                }
            }
            // the hint after the final None
            hints.push(it.size_hint().0 as u128);
            let b = binom(n, k);
            total_vectors += vals.len();
            let s = shards_pick(idx, shards);
            cases[s].push(format!(
                "({}, {}, {}, {}, {}, {})",
                n,
                k,
                g_list(&hints, |h| g_n(*h)),
                g_list(&vals, |v| g_natlist(v)),
                g_n(b as u128),
                g_bool(hint_consistent)
            ));
            meta[s].push(json!({"n": n, "k": k, "yielded": vals.len(), "binom": b,
                "first": vals.first(), "last": vals.last()}));
            idx += 1;
        }
    }
    for s in 0..shards {
        let f = cases_file(
            "Require Import CorrSel.\nOpen Scope list_scope.",
            "sel_case",
            "check_sel",
            &cases[s],
        );
        std::fs::write(format!("{}/cases_sel_{:02}.v", outdir, s), f).unwrap();
        std::fs::write(
            format!("{}/cases_sel_{:02}.json", outdir, s),
            serde_json::to_string(&meta[s]).unwrap(),
        )
        .unwrap();
    }
    println!(
        "{}",
        json!({"cases": idx, "total_vectors": total_vectors, "max_n": max_n, "shards": shards})
    );
}

fn shards_pick(idx: usize, shards: usize) -> usize {
    idx % shards
}
