//! C20: the k-subset iterator and binom of util.rs on every (n, k) up to a bound.
use crate::gen::*;
use cdecao::verif::{binom, IterSelections};
use serde_json::json;

pub fn run(max_n: usize, shards: usize, outdir: &str) {
    std::panic::set_hook(Box::new(|_| {}));
    let mut cases: Vec<Vec<String>> = vec![Vec::new(); shards];
    let mut meta: Vec<Vec<serde_json::Value>> = vec![Vec::new(); shards];
    let mut total_vectors = 0usize;
    let mut idx = 0usize;
    // large n first so that the shards are balanced
    for n in (0..=max_n).rev() {
        for k in 0..=(n + 2) {
            let data: Vec<usize> = (0..n).collect();
            let mut it = data[..].iter_selections(k);
            let mut hints: Vec<u128> = Vec::new();
            let mut vals: Vec<Vec<usize>> = Vec::new();
            let mut hint_consistent = true;
            // a panic inside the iterator (index out of bounds, arithmetic overflow) ends the enumeration of this (n, k); it is reported as
            // an inconsistent case with what was yielded so far (disagreement with the model + specification failure)
            let limit = 200_000usize;
            let r = std::panic::catch_unwind(std::panic::AssertUnwindSafe(|| {
                loop {
                    let (lo, hi) = it.size_hint();
                    if hi != Some(lo) {
                        hint_consistent = false;
                    }
                    hints.push(lo as u128);
                    match it.next() {
                        Some(v) => vals.push(v.into_iter().copied().collect()),
                        None => break,
                    }
                    if vals.len() > limit {
                        hint_consistent = false; // more than any C(n, k) of the tier: the enumeration does not end
                        break;
                    }
                }
                // the hint after the final None
                hints.push(it.size_hint().0 as u128);
            }));
            if r.is_err() {
                hint_consistent = false;
                vals.truncate(50);
                hints.truncate(50);
            }
            if vals.len() > limit {
                vals.truncate(50);
                hints.truncate(50);
            }
            let b = std::panic::catch_unwind(|| binom(n, k)).unwrap_or(usize::MAX);
            total_vectors += vals.len();
            let s = shards_pick(idx, shards);
            cases[s].push(format!(
                "({}, {}, {}, {}, {}, {})",
                n,
                k,
                g_list(&hints, |h| g_n(*h)),
                g_list(&vals, |v| g_natlist(v)),
                g_n(b as u128),
                g_bool(hint_consistent)
            ));
            meta[s].push(json!({"n": n, "k": k, "yielded": vals.len(), "binom": b, "panicked": r.is_err(), "hint_bounds_equal": hint_consistent || r.is_err(),
                "first": vals.first(), "last": vals.last()}));
            idx += 1;
        }
    }
    for s in 0..shards {
        let f = cases_file(
            "Require Import CorrSel.\nOpen Scope list_scope.",
            "sel_case",
            "check_sel",
            &cases[s],
        );
        std::fs::write(format!("{}/cases_sel_{:02}.v", outdir, s), f).unwrap();
        std::fs::write(
            format!("{}/cases_sel_{:02}.json", outdir, s),
            serde_json::to_string(&meta[s]).unwrap(),
        )
        .unwrap();
    }
    println!(
        "{}",
        json!({"cases": idx, "total_vectors": total_vectors, "max_n": max_n, "shards": shards})
    );
}

/// larger n: only the first `steps` calls of next (hint before each call and once after), plus binom alone for all n <= 80 and some larger n
pub fn run_prefix(min_n: usize, max_n: usize, steps: usize, outdir: &str) {
    std::panic::set_hook(Box::new(|_| {}));
    let mut cases = Vec::new();
    let mut meta = Vec::new();
    for n in min_n..=max_n {
        for k in 0..=(n + 1) {
            let data: Vec<usize> = (0..n).collect();
            let mut it = data[..].iter_selections(k);
            let mut hints: Vec<u128> = Vec::new();
            let mut vals: Vec<Vec<usize>> = Vec::new();
            let mut consistent = true;
            let r = std::panic::catch_unwind(std::panic::AssertUnwindSafe(|| {
                for _ in 0..steps {
                    let (lo, hi) = it.size_hint();
                    if hi != Some(lo) {
                        consistent = false;
                    }
                    match it.next() {
                        Some(v) => {
                            hints.push(lo as u128);
                            vals.push(v.into_iter().copied().collect());
                        }
                        None => break,
                    }
                }
                hints.push(it.size_hint().0 as u128);
            }));
            if r.is_err() {
                consistent = false; // a panic (e.g. size_hint underflow) is reported as disagreement + spec failure
                hints.push(u64::MAX as u128);
            }
            let b = std::panic::catch_unwind(|| binom(n, k)).unwrap_or(usize::MAX);
            cases.push(format!(
                "({}, {}, {}, {}, {}, {})",
                n,
                k,
                g_list(&hints, |h| g_n(*h)),
                g_list(&vals, |v| g_natlist(v)),
                g_n(b as u128),
                g_bool(consistent)
            ));
            meta.push(json!({"n": n, "k": k, "mode": "prefix", "steps": vals.len(), "binom": b, "hints": hints.iter().map(|h| *h as u64).collect::<Vec<u64>>()}));
        }
    }
    let f = cases_file("Require Import CorrSel.\nOpen Scope list_scope.", "sel_case", "check_sel_prefix", &cases);
    std::fs::write(format!("{}/cases_selp_00.v", outdir), f).unwrap();
    std::fs::write(format!("{}/cases_selp_00.json", outdir), serde_json::to_string(&meta).unwrap()).unwrap();
    let mut bc = Vec::new();
    let mut bm = Vec::new();
    // every (n, k) up to n = 80 (beyond n = 67 the count itself exceeds usize for the middle k), and larger n at the ends, around the
    // middle and where the count just fits / just does not fit
    let mut nks: Vec<(usize, usize)> = Vec::new();
    for n in 0..=80usize {
        for k in 0..=(n + 1) {
            nks.push((n, k));
        }
    }
    for n in [100usize, 128, 200, 500] {
        for k in [0, 1, 2, 3, 9, 10, 11, 12, n / 2 - 1, n / 2, n - 12, n - 11, n - 10, n - 3, n - 2, n - 1, n, n + 1] {
            nks.push((n, k));
        }
    }
    for (n, k) in nks {
        let b = std::panic::catch_unwind(|| binom(n, k)).ok();
        bc.push(format!("({}, {}, {})", n, k, g_opt(&b, |x| g_n(*x as u128))));
        bm.push(json!({"n": n, "k": k, "mode": "binom", "binom": b.map(|x| x.to_string())}));
    }
    let f = cases_file("Require Import CorrSel.\nOpen Scope list_scope.", "binom_case", "check_binom", &bc);
    std::fs::write(format!("{}/cases_binom_00.v", outdir), f).unwrap();
    std::fs::write(format!("{}/cases_binom_00.json", outdir), serde_json::to_string(&bm).unwrap()).unwrap();
    println!("{}", json!({"prefix_cases": cases.len(), "binom_cases": bc.len()}));
}

fn shards_pick(idx: usize, shards: usize) -> usize {
    idx % shards
}
