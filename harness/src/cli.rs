//! CLI level (C10, C14, C15, C16, C03): writes generated instances as simple-format input files together with the result of
//! the library-level solve (1 worker, default schedule, recorded history as a Coq case); the driver runs the real binary on them.
use crate::gen::*;
use crate::node::*;
use crate::sched::*;
use crate::solve::*;
use cdecao::verif::{make_course, make_participant};
use serde_json::json;

pub fn pname(i: usize) -> String {
    let tails = ["Ärger", "Müller", "Zoë", "O'Neil", "山田", "plain", "Łukasz", "d'Été"];
    format!("P{} {}", i, tails[i % tails.len()])
}
pub fn cname(i: usize) -> String {
    let tails = ["Analysis", "Übung", "α-Kurs", "Töpfern & Tanz", "K"];
    format!("{}. {}", i + 1, tails[i % tails.len()])
}

pub fn run(seed: u64, count: usize, max_c: usize, max_p: usize, rooms_mode: usize, outdir: &str) {
    std::panic::set_hook(Box::new(|_| {}));
    let mut r = Rng::new(seed);
    let mut text: Vec<String> = Vec::new();
    let mut metas: Vec<serde_json::Value> = Vec::new();
    for id in 0..count {
        let mc = 1 + (max_c - 1) * (id + 1) / count.max(1);
        let mp = 1 + (max_p - 1) * (id + 1) / count.max(1);
        let inst = gen_inst(&mut r, mc.max(1), mp.max(1), rooms_mode);
        let hidden: Vec<Vec<String>> =
            (0..inst.courses.len()).map(|c| (0..(if r.chance(1, 4) { r.range(1, 2) } else { 0 })).map(|j| format!("H{}_{} Gast", c, j)).collect()).collect();
        let courses: Vec<cdecao::Course> = inst
            .courses
            .iter()
            .enumerate()
            .map(|(i, c)| make_course(i, i, cname(i), c.min, c.max, c.instr.clone(), c.fbits, c.obits, c.fixed, hidden[i].clone()))
            .collect();
        let parts: Vec<cdecao::Participant> = inst.parts.iter().enumerate().map(|(i, p)| make_participant(i, i, pname(i), p.clone())).collect();
        let path = format!("{}/inst_{:04}.json", outdir, id);
        let f = std::fs::File::create(&path).unwrap();
        cdecao::io::simple::write_input_data(f, &parts, &courses).unwrap();
        let run = run_solve(&inst, 1, |log| replay_chooser(vec![], log), false);
        let places: usize = inst.courses.iter().map(|c| c.max).sum();
        let real = inst.parts.iter().filter(|p| !p.is_empty()).count();
        metas.push(json!({"id": id, "file": path, "inst": j_inst(&inst), "g_courses": g_inst_parts(&inst).0, "g_parts": g_inst_parts(&inst).1,
            "hidden": hidden, "pnames": (0..inst.parts.len()).map(pname).collect::<Vec<_>>(),
            "cnames": (0..inst.courses.len()).map(cname).collect::<Vec<_>>(),
            "over_subscribed": places < real,
            "lib": {"outcome": run.outcome, "result": run.result.as_ref().map(|(a, s)| json!({"assignment": a, "score": s})),
                    "quality": run.quality.map(|q| json!([q.0, q.1, q.2, q.3])), "stats": run.stats},
            "k": 1, "choices": run.log.choices, "spurious": false}));
        text.push(g_solve_case(&inst, 1, &run, &None));
    }
    let f = cases_file("Require Import CorrTree CorrNode CorrSolve.\nOpen Scope nat_scope.\nOpen Scope list_scope.", "solve_case", "check_solve", &text);
    std::fs::write(format!("{}/cases_clilib_00.v", outdir), f).unwrap();
    std::fs::write(format!("{}/cases_clilib_00.json", outdir), serde_json::to_string(&metas).unwrap()).unwrap();
    println!("{}", json!({"cases": count}));
}
