//! CLI level (C10, C14, C15, C16, C03): writes generated instances as simple-format input files together with the result of
//! the library-level solve (1 worker, default schedule, recorded history as a Coq case); the driver runs the real binary on them.
use crate::gen::*;
use crate::node::*;
use crate::sched::*;
use crate::solve::*;
use cdecao::verif::{make_course, make_participant};
use serde_json::json;

pub fn pname(i: usize) -> String {
    let tails = ["Ärger", "Müller", "Zoë", "O'Neil", "山田", "plain", "Łukasz", "d'Été"];
    format!("P{} {}", i, tails[i % tails.len()])
}
pub fn cname(i: usize) -> String {
    let tails = ["Analysis", "Übung", "α-Kurs", "Töpfern & Tanz", "K"];
    format!("{}. {}", i + 1, tails[i % tails.len()])
}

/// exactly as many course places as participants with choices (everybody chooses every course, so it is feasible), plus 1-3
/// participants without choices who instruct nothing: they need no place although they are neither instructors nor assigned
fn tight_inst(r: &mut Rng) -> Inst {
    let nc = r.range(1, 4);
    let mut courses = Vec::new();
    let mut places = 0;
    for _ in 0..nc {
        let max = r.range(0, 3);
        places += max;
        courses.push(ICourse { min: 0, max, instr: vec![], fixed: false, fbits: 1.0f32.to_bits(), obits: 0.0f32.to_bits() });
    }
    let mut parts: Vec<Vec<(usize, u32)>> = Vec::new();
    for _ in 0..places {
        let mut cs: Vec<usize> = (0..nc).collect();
        r.shuffle(&mut cs);
        parts.push(cs.iter().enumerate().map(|(rank, c)| (*c, rank as u32)).collect());
    }
    for _ in 0..r.range(1, 3) {
        let at = r.below(parts.len() + 1);
        parts.insert(at, Vec::new());
    }
    Inst { courses, parts, rooms: None, style: String::from("tight") }
}

pub fn run(seed: u64, count: usize, max_c: usize, max_p: usize, rooms_mode: usize, outdir: &str) {
    std::panic::set_hook(Box::new(|_| {}));
    let mut r = Rng::new(seed);
    let mut text: Vec<String> = Vec::new();
    let mut metas: Vec<serde_json::Value> = Vec::new();
    for id in 0..count {
        let mc = 1 + (max_c - 1) * (id + 1) / count.max(1);
        let mp = 1 + (max_p - 1) * (id + 1) / count.max(1);
        let mut inst = gen_inst(&mut r, mc.max(1), mp.max(1), rooms_mode);
        if id % 6 == 5 {
            inst = tight_inst(&mut r);
        }
        // every fifth instance with a room list: FEWER rooms than courses, all large, and one course that can be cancelled (no instructor,
        // not fixed) -- usually feasible, and the possible-rooms listing has to cope with courses without a room
        if id % 5 == 2 && inst.courses.len() >= 2 {
            let nc = inst.courses.len();
            let big = inst.courses.iter().map(|c| 2 * (c.max + c.instr.len()) + 14).max().unwrap_or(14);
            let drop = r.range(1, 2.min(nc - 1));
            inst.rooms = Some((0..(nc - drop)).map(|_| big + r.below(3)).collect());
            for c in (nc - drop)..nc {
                inst.courses[c].fixed = false;
                inst.courses[c].min = 0;
            }
            inst.style.push_str("+fewrooms");
        }
        // every seventh instance (no random draw): course 0 gets a room factor far above the usual ones (12.0, no offset) and all rooms are one
        // place larger than ten times its full size -- large enough for the other courses, too small for course 0 when it is full
        if id % 7 == 3 && !inst.courses.is_empty() && inst.courses[0].max >= 1 {
            let nc = inst.courses.len();
            inst.courses[0].fbits = 12.0f32.to_bits();
            inst.courses[0].obits = 0.0f32.to_bits();
            let full = inst.courses[0].max + inst.courses[0].instr.len();
            let others = inst.courses.iter().skip(1).map(|c| 3 * (c.max + c.instr.len()) + 14).max().unwrap_or(0);
            inst.rooms = Some((0..nc).map(|_| (10 * full + 1).max(others)).collect());
            inst.style.push_str("+bigfactor");
        }
        let hidden: Vec<Vec<String>> =
            (0..inst.courses.len())
                .map(|c| {
                    // hidden extra names: none mostly; else 1-4 names, not sorted, namesakes (the same string twice) allowed by the format
                    let n = if r.chance(1, 4) { r.range(1, 4) } else { 0 };
                    let mut v: Vec<String> = Vec::new();
                    for j in 0..n {
                        if j > 0 && r.chance(1, 3) {
                            let k = r.below(v.len());
                            v.push(v[k].clone());
                        } else {
                            v.push(format!("H{}_{} Gast", c, (n - j) * 7 % 5));
                        }
                    }
                    v
                })
                .collect();
        let courses: Vec<cdecao::Course> = inst
            .courses
            .iter()
            .enumerate()
            .map(|(i, c)| make_course(i, i, cname(i), c.min, c.max, c.instr.clone(), c.fbits, c.obits, c.fixed, hidden[i].clone()))
            .collect();
        let parts: Vec<cdecao::Participant> = inst.parts.iter().enumerate().map(|(i, p)| make_participant(i, i, pname(i), p.clone())).collect();
        let path = format!("{}/inst_{:04}.json", outdir, id);
        let f = std::fs::File::create(&path).unwrap();
        cdecao::io::simple::write_input_data(f, &parts, &courses).unwrap();
        let run = run_solve(&inst, 1, |log| replay_chooser(vec![], log), false);
        let places: usize = inst.courses.iter().map(|c| c.max).sum();
        let real = inst.parts.iter().filter(|p| !p.is_empty()).count();
        metas.push(json!({"id": id, "file": path, "inst": j_inst(&inst), "g_courses": g_inst_parts(&inst).0, "g_parts": g_inst_parts(&inst).1,
            "hidden": hidden, "pnames": (0..inst.parts.len()).map(pname).collect::<Vec<_>>(),
            "cnames": (0..inst.courses.len()).map(cname).collect::<Vec<_>>(),
            "over_subscribed": places < real,
            "lib": {"outcome": run.outcome, "result": run.result.as_ref().map(|(a, s)| json!({"assignment": a, "score": s})),
                    "quality": run.quality.map(|q| json!([q.0, q.1, q.2, q.3])), "stats": run.stats},
            "k": 1, "choices": run.log.choices, "spurious": false}));
        text.push(g_solve_case(&inst, 1, &run, &None));
    }
    let f = cases_file("Require Import CorrTree CorrNode CorrSolve.\nOpen Scope nat_scope.\nOpen Scope list_scope.", "solve_case", "check_solve", &text);
    std::fs::write(format!("{}/cases_clilib_00.v", outdir), f).unwrap();
    std::fs::write(format!("{}/cases_clilib_00.json", outdir), serde_json::to_string(&metas).unwrap()).unwrap();
    println!("{}", json!({"cases": count}));
}

/// `vh probe`: what the library stages return for one input file (used to predict the binary's exit status through Cli.exit_code)
pub fn probe(args: &[String]) {
    std::panic::set_hook(Box::new(|_| {}));
    let get = |name: &str| -> Option<String> {
        for i in 0..args.len() {
            if args[i] == name && i + 1 < args.len() {
                return Some(args[i + 1].clone());
            }
        }
        None
    };
    let has = |name: &str| args.iter().any(|a| a == name);
    let path = get("--file").unwrap();
    let cde = has("--cde");
    let track: Option<u64> = get("--track").and_then(|t| t.parse().ok());
    let rooms: Option<Vec<usize>> = get("--rooms").and_then(|s| s.split(',').map(|r| r.parse::<usize>()).collect::<Result<Vec<usize>, _>>().ok());
    let (ic, ia) = (has("--ignore-cancelled"), has("--ignore-assigned"));
    let res = std::panic::catch_unwind(move || {
        let file = match std::fs::File::open(&path) {
            Ok(f) => f,
            Err(_) => return json!({"open_ok": false}),
        };
        let parsed = if cde {
            cdecao::io::cdedb::read(file, track, ic, ia, None, None).map(|(p, c, _)| (p, c))
        } else {
            cdecao::io::simple::read(file)
        };
        match parsed {
            Err(e) => json!({"open_ok": true, "parse_ok": false, "error": e}),
            Ok((p, c)) => {
                let consistent = cdecao::io::check_data_consistency(&p, &c).is_ok();
                let n = p.len();
                let mut found = serde_json::Value::Null;
                let places: usize = c.iter().map(|x| cdecao::verif::course_fields(x).4).fold(0usize, |a, b| a.saturating_add(b));
                if consistent && n > 0 && places < 5000 {
                    let (res, _) = cdecao::caobab::solve(std::sync::Arc::new(c), std::sync::Arc::new(p), rooms.as_ref(), false, 1);
                    found = json!(res.is_some());
                }
                json!({"open_ok": true, "parse_ok": true, "consistent": consistent, "n_participants": n, "found": found, "places": places})
            }
        }
    });
    match res {
        Ok(v) => println!("{}", v),
        Err(_) => println!("{}", json!({"library_panic": true})),
    }
}

/// `vh cderead --list L`: runs cdedb::read on every entry of the list file and prints what it returned
pub fn cderead(args: &[String]) {
    std::panic::set_hook(Box::new(|_| {}));
    let mut list = None;
    for i in 0..args.len() {
        if args[i] == "--list" && i + 1 < args.len() {
            list = Some(args[i + 1].clone());
        }
    }
    let v: serde_json::Value = serde_json::from_str(&std::fs::read_to_string(list.unwrap()).unwrap()).unwrap();
    let mut out = Vec::new();
    for e in v.as_array().unwrap() {
        let path = e["file"].as_str().unwrap().to_string();
        let track = e["track"].as_u64();
        let (ic, ia) = (e["ic"].as_bool().unwrap_or(false), e["ia"].as_bool().unwrap_or(false));
        let ff = e["ff"].as_str().map(|x| x.to_string());
        let of = e["of"].as_str().map(|x| x.to_string());
        let r = std::panic::catch_unwind(move || {
            let f = std::fs::File::open(&path).unwrap();
            match cdecao::io::cdedb::read(f, track, ic, ia, ff.as_deref(), of.as_deref()) {
                Err(m) => json!({"err": m}),
                Ok((ps, cs, amb)) => {
                    let (eid, tid, _tn, nic, nia) = amb.verif_fields();
                    json!({
                        "participants": ps.iter().map(|p| { let (_i, d, n, ch) = cdecao::verif::participant_fields(p); json!({"dbid": d, "name": n, "choices": ch}) }).collect::<Vec<_>>(),
                        "courses": cs.iter().map(|c| { let (_i, d, n, mn, mx, ins, fb, ob, fx, hid) = cdecao::verif::course_fields(c);
                            json!({"dbid": d, "name": n, "min": mn, "max": mx, "instr": ins, "fixed": fx, "hidden": hid, "factor": f32::from_bits(fb), "offset": f32::from_bits(ob), "fbits": fb, "obits": ob}) }).collect::<Vec<_>>(),
                        "quality": amb.external_assignment_quality_info.as_ref().map(|q| { let (ni, pens) = q.verif_fields(); json!([ni, pens]) }),
                        "event_id": eid, "track_id": tid, "ign_regs": nia, "ign_courses": nic})
                }
            }
        });
        out.push(match r {
            Ok(v) => v,
            Err(_) => json!({"panic": true}),
        });
    }
    println!("{}", serde_json::Value::Array(out));
}

/// `vh simpleread --list L`: runs io::simple::read and io::check_data_consistency on every entry of the list file and prints what
/// they returned (C15: correspondence of the reader model SimpleRead)
pub fn simpleread(args: &[String]) {
    std::panic::set_hook(Box::new(|_| {}));
    let mut list = None;
    for i in 0..args.len() {
        if args[i] == "--list" && i + 1 < args.len() {
            list = Some(args[i + 1].clone());
        }
    }
    let v: serde_json::Value = serde_json::from_str(&std::fs::read_to_string(list.unwrap()).unwrap()).unwrap();
    let mut out = Vec::new();
    for e in v.as_array().unwrap() {
        let path = e["file"].as_str().unwrap().to_string();
        let r = std::panic::catch_unwind(move || {
            let f = std::fs::File::open(&path).unwrap();
            match cdecao::io::simple::read(f) {
                Err(m) => json!({"err": m}),
                Ok((ps, cs)) => {
                    let consistent = cdecao::io::check_data_consistency(&ps, &cs).is_ok();
                    json!({
                        "participants": ps.iter().map(|p| { let (_i, _d, n, ch) = cdecao::verif::participant_fields(p); json!({"name": n, "choices": ch}) }).collect::<Vec<_>>(),
                        "courses": cs.iter().map(|c| { let (_i, _d, n, mn, mx, ins, fb, ob, fx, hid) = cdecao::verif::course_fields(c);
                            json!({"name": n, "min": mn, "max": mx, "instr": ins, "fixed": fx, "hidden": hid, "fbits": fb, "obits": ob}) }).collect::<Vec<_>>(),
                        "consistent": consistent})
                }
            }
        });
        out.push(match r {
            Ok(v) => v,
            Err(_) => json!({"panic": true}),
        });
    }
    println!("{}", serde_json::Value::Array(out));
}

/// `vh roomsread --list L`: runs io::rooms::read on every entry of the list file and prints what it returned
pub fn roomsread(args: &[String]) {
    std::panic::set_hook(Box::new(|_| {}));
    let mut list = None;
    for i in 0..args.len() {
        if args[i] == "--list" && i + 1 < args.len() {
            list = Some(args[i + 1].clone());
        }
    }
    let v: serde_json::Value = serde_json::from_str(&std::fs::read_to_string(list.unwrap()).unwrap()).unwrap();
    let mut out = Vec::new();
    for e in v.as_array().unwrap() {
        let path = e["file"].as_str().unwrap().to_string();
        let r = std::panic::catch_unwind(move || {
            let f = std::fs::File::open(&path).unwrap();
            match cdecao::io::rooms::read(f) {
                Err(m) => json!({"err": m}),
                Ok((rooms, kinds)) => json!({
                    "rooms": rooms,
                    "kinds": kinds.iter().map(|k| { let (n, c, q) = k.verif_fields(); json!([n, c, q]) }).collect::<Vec<_>>()}),
            }
        });
        out.push(match r {
            Ok(v) => v,
            Err(_) => json!({"panic": true}),
        });
    }
    println!("{}", serde_json::Value::Array(out));
}
