//! C08: quality figures of solution_score.rs on participant numbers far beyond what a solve-based case reaches.
use crate::gen::*;
use cdecao::caobab::solution_score::{AssignmentQualityInfo, QualityInfo};
use cdecao::verif::{make_course, make_participant};
use serde_json::json;

pub fn run(seed: u64, count: usize, shards: usize, outdir: &str) {
    let mut r = Rng::new(seed);
    let mut text: Vec<Vec<String>> = vec![Vec::new(); shards];
    let mut metas: Vec<Vec<serde_json::Value>> = vec![Vec::new(); shards];
    let mut big = 0;
    for i in 0..count {
        let n = match r.below(4) {
            0 => r.range(1, 30),
            1 => r.range(300, 400),
            2 => r.range(330, 3000),
            _ => r.range(1, 20000),
        };
        if n * 50000 > (1 << 24) {
            big += 1;
        }
        let n_only = r.below(4);
        let courses = vec![make_course(0, 0, String::from("c"), 0, n, (n..n + n_only).collect(), 1.0f32.to_bits(), 0, false, vec![])];
        let mut parts = Vec::new();
        for p in 0..n {
            parts.push(make_participant(p, p, format!("p{}", p), vec![(0, 0)]));
        }
        for p in n..n + n_only {
            parts.push(make_participant(p, p, format!("i{}", p), vec![]));
        }
        let pen_total = match r.below(3) {
            0 => r.below(4),
            1 => r.below(2 * n + 1),
            _ => 2 * r.below(n + 1) + 1,
        };
        let score = (n * 50000 - pen_total.min(n * 50000)) as u32;
        let ext = if r.chance(1, 2) {
            let ni = r.below(5);
            let pens: Vec<u32> = (0..r.below(40)).map(|_| r.below(6) as u32).collect();
            Some((ni, pens))
        } else {
            None
        };
        let ext_info = ext.as_ref().map(|(ni, pens)| AssignmentQualityInfo::new(*ni, pens.clone()));
        let q = QualityInfo::calculate(score, &parts, &courses, ext_info.as_ref());
        let case = format!(
            "({}%Z, {}%Z, {}, {}%Z, {})",
            n,
            score,
            match &ext {
                None => String::from("None"),
                Some((ni, pens)) => format!("Some ({}%Z, {})", ni, g_list(pens, |p| g_z(*p as i128))),
            },
            q.solution_quality.to_bits(),
            match q.overall_quality {
                None => String::from("None"),
                Some(o) => format!("Some {}%Z", o.to_bits()),
            }
        );
        text[i % shards].push(case);
        metas[i % shards].push(json!({"n_with_choices": n, "n_instructor_only": n_only, "score": score, "external": ext,
            "impl_solution_quality": q.solution_quality, "impl_overall_quality": q.overall_quality}));
    }
    for s in 0..shards {
        if text[s].is_empty() {
            continue;
        }
        let f = cases_file("Require Import CorrQual.\nOpen Scope list_scope.", "qual_case", "check_qual", &text[s]);
        std::fs::write(format!("{}/cases_qual_{:02}.v", outdir, s), f).unwrap();
        std::fs::write(format!("{}/cases_qual_{:02}.json", outdir, s), serde_json::to_string(&metas[s]).unwrap()).unwrap();
    }
    println!("{}", json!({"cases": count, "numerator_beyond_2^24": big}));
}
