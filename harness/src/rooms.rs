//! C18: possible-room listings of io/rooms.rs on generated assignments, room lists and room-kind files.
use crate::gen::*;
use crate::node::*;
use cdecao::io::rooms::{get_course_room_kind_names, read, verif_possible_course_room_sizes};
use serde_json::json;

pub fn run(seed: u64, count: usize, shards: usize, outdir: &str) {
    std::panic::set_hook(Box::new(|_| {}));
    let mut r = Rng::new(seed);
    let mut text: Vec<Vec<String>> = vec![Vec::new(); shards];
    let mut metas: Vec<Vec<serde_json::Value>> = vec![Vec::new(); shards];
    let mut hist = std::collections::BTreeMap::<String, usize>::new();
    for i in 0..count {
        let max_c = 1 + 9 * (i + 1) / count;
        let inst = gen_inst(&mut r, max_c, 12, 0);
        let nc = inst.courses.len();
        let np = inst.parts.len();
        // assignment: random, with empty courses and ties
        let dense = r.chance(1, 2);
        let a: Vec<Option<usize>> = (0..np).map(|_| if r.chance(1, 6) { None } else if dense { Some(r.below(nc.min(3))) } else { Some(r.below(nc)) }).collect();
        // every third instance with at least 10 participants: a course with factor 1.1 or 0.3 (binary32) holding exactly 10 people -- the product
        // is 11.0 / 3.0 in binary32 but slightly above in double precision, so the rounded-up size depends on the arithmetic used
        let mut inst = inst;
        let mut a = a;
        if np >= 10 && nc >= 1 && r.chance(1, 3) {
            let c = r.below(nc);
            inst.courses[c].fbits = (if r.chance(1, 2) { 1.1f32 } else { 0.3f32 }).to_bits();
            inst.courses[c].obits = 0.0f32.to_bits();
            for (p, x) in a.iter_mut().enumerate() {
                if p < 10 {
                    *x = Some(c);
                } else if *x == Some(c) {
                    *x = if nc > 1 { Some((c + 1) % nc) } else { None };
                }
            }
            *hist.entry(String::from("binary32_critical_course")).or_insert(0) += 1;
        }
        let (courses, _parts) = build(&inst);
        // effective sizes as the program computes them
        let mut sizes: Vec<usize> = Vec::new();
        for (ci, c) in inst.courses.iter().enumerate() {
            let n = a.iter().filter(|x| **x == Some(ci)).count();
            sizes.push(if n == 0 && !c.fixed { 0 } else { (f32::from_bits(c.obits) + f32::from_bits(c.fbits) * n as f32).ceil() as usize });
        }
        // rooms: housed by construction (most), or arbitrary
        let mut rooms: Vec<usize> = match r.below(5) {
            0 => (0..r.range(0, nc + 2)).map(|_| r.range(0, 8)).collect(),
            1 => sizes.iter().filter(|s| **s > 0).cloned().collect(),
            _ => sizes.iter().map(|s| s + if r.chance(1, 2) { 0 } else { r.below(3) }).collect(),
        };
        for _ in 0..r.below(3) {
            rooms.push(r.range(0, 9));
        }
        if r.chance(1, 4) {
            // drop rooms of empty courses: fewer rooms than courses
            let mut keep = Vec::new();
            let mut zeros = sizes.iter().filter(|s| **s == 0).count();
            for x in rooms.iter() {
                if *x == 0 && zeros > 0 {
                    zeros -= 1;
                    continue;
                }
                keep.push(*x);
            }
            rooms = keep;
        }
        r.shuffle(&mut rooms);
        let with_kinds = r.chance(1, 2);
        // kinds: group by capacity, sometimes split one capacity into two names, sometimes add quantity-0 kinds
        let mut kinds: Vec<(usize, usize, usize)> = Vec::new();
        let mut kind_json: Vec<serde_json::Value> = Vec::new();
        let mut raw_kinds: Vec<(usize, usize, usize)> = Vec::new(); // the kinds in file order (before rooms::read sorts them)
        let (lists, names_ids, rooms_used) = if with_kinds {
            let mut caps: std::collections::BTreeMap<usize, usize> = std::collections::BTreeMap::new();
            for x in rooms.iter() {
                *caps.entry(*x).or_insert(0) += 1;
            }
            let mut id = 0;
            let mut raw: Vec<(usize, usize, usize)> = Vec::new();
            for (cap, q) in caps.iter() {
                if *q >= 2 && r.chance(1, 3) {
                    raw.push((id, *cap, 1));
                    id += 1;
                    raw.push((id, *cap, q - 1));
                    id += 1;
                } else {
                    raw.push((id, *cap, *q));
                    id += 1;
                }
                if r.chance(1, 4) {
                    raw.push((id, *cap, 0));
                    id += 1;
                }
            }
            if r.chance(1, 3) {
                raw.push((id, r.range(0, 9), 0));
            }
            r.shuffle(&mut raw);
            for (id, cap, q) in raw.iter() {
                kind_json.push(json!({"name": format!("K{}", id), "capacity": cap, "quantity": q}));
                raw_kinds.push((*id, *cap, *q));
            }
            let (rs, rk) = read(serde_json::to_string(&kind_json).unwrap().as_bytes()).unwrap();
            for k in rk.iter() {
                let (name, cap, q) = k.verif_fields();
                kinds.push((name[1..].parse().unwrap(), cap, q));
            }
            let lists = verif_possible_course_room_sizes(&a, &courses, rs.clone());
            let names = get_course_room_kind_names(&a, &courses, &rk);
            let ids: Vec<Vec<usize>> = names
                .iter()
                .map(|s| if s.is_empty() { vec![] } else { s.split(", ").map(|n| n[1..].parse().unwrap()).collect() })
                .collect();
            (lists, ids, rs)
        } else {
            (verif_possible_course_room_sizes(&a, &courses, rooms.clone()), vec![], rooms.clone())
        };
        *hist.entry(format!("courses:{:02}", nc)).or_insert(0) += 1;
        *hist.entry(String::from(if with_kinds { "room_kinds_file" } else { "room_list" })).or_insert(0) += 1;
        let mut ss = sizes.clone();
        ss.sort();
        if ss.windows(2).any(|w| w[0] == w[1] && w[0] > 0) {
            *hist.entry(String::from("ties_among_course_sizes")).or_insert(0) += 1;
        }
        if rooms_used.len() < nc {
            *hist.entry(String::from("fewer_rooms_than_courses")).or_insert(0) += 1;
        }
        let (gc, _, _) = g_inst_parts(&inst);
        let case = format!(
            "({}, {}, {}, {}, {}, {}, {})",
            gc,
            g_assignment(&a),
            g_natlist(&rooms_used),
            g_list(&lists, |l| g_natlist(l)),
            g_list(&kinds, |(id, cap, q)| format!("({}, {}, {})", g_nat(*id), g_nat(*cap), g_nat(*q))),
            g_list(&names_ids, |l| g_natlist(l)),
            g_list(&raw_kinds, |(id, cap, q)| format!("({}, {}, {})", g_nat(*id), g_nat(*cap), g_nat(*q)))
        );
        text[i % shards].push(case);
        metas[i % shards].push(json!({"inst_courses": j_inst(&inst)["courses"], "assignment": a, "rooms": rooms_used, "sizes": sizes,
            "impl_lists": lists, "kinds": kind_json, "impl_kind_name_ids": names_ids}));
    }
    for s in 0..shards {
        if text[s].is_empty() {
            continue;
        }
        let f = cases_file("Require Import CorrRooms.\nOpen Scope nat_scope.\nOpen Scope list_scope.", "rooms_case", "check_rooms", &text[s]);
        std::fs::write(format!("{}/cases_rooms_{:02}.v", outdir, s), f).unwrap();
        std::fs::write(format!("{}/cases_rooms_{:02}.json", outdir, s), serde_json::to_string(&metas[s]).unwrap()).unwrap();
    }
    println!("{}", json!({"cases": count, "hist": hist}));
}
