//! Node level (C01, C06, C08, C10, C17): run_bab_node of caobab.rs on generated instances and reachable nodes.
use crate::gen::*;
use cdecao::caobab::verif_hooks::{precompute, run_node, run_node_opt, VNode, VResult};
use cdecao::verif::{make_course, make_participant};
use cdecao::{Course, Participant};
use serde_json::json;

#[derive(Clone, Debug)]
pub struct ICourse {
    pub min: usize,
    pub max: usize,
    pub instr: Vec<usize>,
    pub fixed: bool,
    pub fbits: u32,
    pub obits: u32,
}
#[derive(Clone, Debug)]
pub struct Inst {
    pub courses: Vec<ICourse>,
    pub parts: Vec<Vec<(usize, u32)>>,
    pub rooms: Option<Vec<usize>>,
    pub style: String,
}

pub const FACTORS: [f32; 8] = [1.0, 0.5, 1.25, 1.5, 2.0, 2.5, 1.1, 0.3];
pub const OFFSETS: [f32; 6] = [0.0, 1.0, 2.5, 3.0, 12.0, 0.5];

pub fn gen_inst(r: &mut Rng, max_c: usize, max_p: usize, rooms_mode: usize) -> Inst {
    let nc = r.range(1, max_c);
    let np = r.range(1, max_p);
    let mut style = String::new();
    // instructors: disjoint sets
    let mut free: Vec<usize> = (0..np).collect();
    r.shuffle(&mut free);
    let mut courses = Vec::new();
    let size_style = r.below(4); // 0: tiny courses, 1: ample, 2: mixed, 3: zero-size heavy
    for _ in 0..nc {
        let max = match size_style {
            0 => r.range(0, 2),
            1 => r.range(2, 5),
            2 => r.range(0, 4),
            _ => {
                if r.chance(1, 2) {
                    0
                } else {
                    r.range(1, 3)
                }
            }
        };
        let min = if r.chance(1, 3) { 0 } else { r.range(0, max) };
        let mut instr = Vec::new();
        if r.chance(2, 5) {
            let k = r.range(1, 2);
            for _ in 0..k {
                if let Some(i) = free.pop() {
                    instr.push(i);
                }
            }
        }
        let fixed = r.chance(1, 5);
        let (fbits, obits) = if r.chance(if rooms_mode == 3 { 1 } else { 4 }, 8) {
            (1.0f32.to_bits(), 0.0f32.to_bits())
        } else {
            (r.pick(&FACTORS).to_bits(), if r.chance(1, 2) { 0.0f32.to_bits() } else { r.pick(&OFFSETS).to_bits() })
        };
        courses.push(ICourse { min, max, instr, fixed, fbits, obits });
    }
    style.push_str(["tiny", "ample", "mixed", "zero"][size_style]);
    let is_instr: Vec<bool> = (0..np).map(|p| courses.iter().any(|c| c.instr.contains(&p))).collect();
    let pen_style = r.below(5); // 0-2 rank, 3 ties, 4 large
    let mut parts = Vec::new();
    for p in 0..np {
        let nchoices = if is_instr[p] && r.chance(1, 2) {
            0
        } else if r.chance(1, 12) {
            0
        } else {
            r.range(1, 4.min(nc).max(1))
        };
        let mut cs: Vec<usize> = (0..nc).collect();
        r.shuffle(&mut cs);
        cs.truncate(nchoices.min(nc));
        let mut choices = Vec::new();
        for (rank, c) in cs.iter().enumerate() {
            let pen = match pen_style {
                3 => r.below(2) as u32,
                4 => r.below(50000 / np.max(1)) as u32,
                _ => rank as u32,
            };
            choices.push((*c, pen));
        }
        parts.push(choices);
    }
    if pen_style == 4 {
        style.push_str("+bigpen");
    }
    // special shape (1 in 5): a course with a high minimum that hardly anybody wants, and instructors (with own choices) of other,
    // often fixed, courses who want it: exercises the wrong-course heuristic of check_feasibility
    if nc >= 2 && np >= 3 && r.chance(1, 5) {
        style.push_str("+niche");
        let n = r.below(nc);
        courses[n].min = 2 + r.below(2);
        courses[n].max = courses[n].max.max(courses[n].min + r.below(2));
        let mut keep = r.range(0, 1);
        for p in 0..np {
            if parts[p].iter().any(|(c, _)| *c == n) && parts[p].len() > 1 {
                if keep > 0 {
                    keep -= 1;
                } else {
                    parts[p].retain(|(c, _)| *c != n);
                }
            }
        }
        let ninstr = r.range(1, 2);
        for _ in 0..ninstr {
            let f = r.below(nc);
            if f == n {
                continue;
            }
            let i = match courses[f].instr.first() {
                Some(i) => *i,
                None => {
                    let cand: Vec<usize> = (0..np).filter(|p| !courses.iter().any(|c| c.instr.contains(p))).collect();
                    if cand.is_empty() {
                        continue;
                    }
                    let i = *r.pick(&cand);
                    courses[f].instr.push(i);
                    i
                }
            };
            if !parts[i].iter().any(|(c, _)| *c == n) {
                parts[i].insert(0, (n, 0));
                for (rank, ch) in parts[i].iter_mut().enumerate() {
                    ch.1 = rank as u32;
                }
            }
            courses[f].fixed = r.chance(1, 2);
        }
    }
    // special shape (derived from the instance, no random draws): course 0 reaches its minimum of 2 only with the help of a participant who
    // instructs course 1, which nobody but the instructor of course 0 wants (so it cannot take place and its instructor is free to attend);
    // the instructor of course 0 has own choices whose best penalty is not 0 -- the corner where the theoretical maximum score has to count
    // the instructor bonus for a course that looks undersubscribed among the non-instructors
    if nc >= 2 && np >= 3 && !style.contains("+niche") && (nc * 7 + np * 3 + courses[0].max) % 6 == 0 {
        let pick = |courses: &mut Vec<ICourse>, c: usize, avoid: &[usize]| -> Option<usize> {
            if let Some(i) = courses[c].instr.first() {
                return Some(*i);
            }
            let i = (0..np).find(|p| !avoid.contains(p) && !courses.iter().any(|k| k.instr.contains(p)))?;
            courses[c].instr.push(i);
            Some(i)
        };
        if let Some(ix) = pick(&mut courses, 0, &[]) {
            if let Some(iy) = pick(&mut courses, 1, &[ix]) {
                let a = (0..np).find(|p| !courses.iter().any(|k| k.instr.contains(p)));
                if let Some(a) = a {
                    style.push_str("+lentinstructor");
                    courses[0].instr.truncate(1);
                    courses[0].min = 2;
                    courses[0].max = courses[0].max.max(2);
                    courses[1].min = 3;
                    courses[1].max = courses[1].max.max(3);
                    courses[1].fixed = false;
                    for p in 0..np {
                        parts[p].retain(|(c, _)| *c != 0 && *c != 1);
                    }
                    parts[ix] = vec![(1, 3)];
                    parts[iy].insert(0, (0, 0));
                    parts[a].insert(0, (0, 0));
                }
            }
        }
    }
    // special shape (1 in 6, with rooms): one course with an instructor that everybody wants first (it is filled up to its maximum), and at least
    // as many rooms as courses, all of a size just below / at the bounds a "the rooms can never bind" shortcut might compute: the largest full
    // size with instructors minus one, the largest size WITHOUT instructors, the largest head count without factor and offset
    if rooms_mode != 0 && rooms_mode != 3 && nc >= 1 && np >= 3 && r.chance(1, 6) {
        style.push_str("+fullhouse");
        let cstar = r.below(nc);
        if courses[cstar].instr.is_empty() {
            let cand: Vec<usize> = (0..np).filter(|p| !courses.iter().any(|c| c.instr.contains(p))).collect();
            if !cand.is_empty() {
                let i = *r.pick(&cand);
                courses[cstar].instr.push(i);
            }
        }
        courses[cstar].max = courses[cstar].max.max(2);
        courses[cstar].min = courses[cstar].min.min(courses[cstar].max);
        if r.chance(1, 2) {
            // a factor above 1, so that people inside and outside the factor make a difference
            courses[cstar].fbits = (*r.pick(&[1.5f32, 2.0, 2.5, 1.25])).to_bits();
        }
        for p in 0..np {
            if courses.iter().any(|c| c.instr.contains(&p)) {
                continue;
            }
            parts[p].retain(|(c, _)| *c != cstar);
            parts[p].insert(0, (cstar, 0));
            for (rank, ch) in parts[p].iter_mut().enumerate() {
                ch.1 = rank as u32;
            }
        }
        let size = |c: &ICourse, n: usize| (f32::from_bits(c.obits) + f32::from_bits(c.fbits) * n as f32).ceil() as usize;
        let t_full = courses.iter().map(|c| size(c, c.max + c.instr.len())).max().unwrap_or(0);
        let t_noinstr = courses.iter().map(|c| size(c, c.max)).max().unwrap_or(0);
        let t_heads = courses.iter().map(|c| c.max + c.instr.len()).max().unwrap_or(0);
        let t_outside = courses.iter().map(|c| size(c, c.max) + c.instr.len()).max().unwrap_or(0);
        let b = match r.below(5) {
            0 => t_full.saturating_sub(1),
            1 => t_noinstr,
            2 => t_heads,
            3 => t_outside,
            _ => t_full.saturating_sub(2),
        };
        let n = nc + r.range(0, 2);
        let rooms: Vec<usize> = (0..n).map(|_| b).collect();
        return Inst { courses, parts, rooms: Some(rooms), style };
    }
    let rooms = match rooms_mode {
        0 | 3 => None,
        1 => Some(gen_rooms(r, nc, &courses)),
        _ => {
            if r.chance(1, 2) {
                None
            } else {
                Some(gen_rooms(r, nc, &courses))
            }
        }
    };
    Inst { courses, parts, rooms, style }
}

fn gen_rooms(r: &mut Rng, nc: usize, courses: &[ICourse]) -> Vec<usize> {
    let len = match r.below(4) {
        0 => nc.saturating_sub(r.range(1, 2)),
        1 => nc,
        2 => nc + r.range(1, 2),
        _ => r.range(0, nc + 1),
    };
    // every fourth list: at least as many rooms as courses, all of (nearly) the size one of the courses has when it is completely
    // filled (factor and offset applied to attendees AND instructors) -- the corner where "the rooms can never bind" is almost true
    if r.chance(1, 4) && nc > 0 {
        let c = r.pick(courses);
        let mut full = (f32::from_bits(c.obits) + f32::from_bits(c.fbits) * (c.max + c.instr.len()) as f32).ceil() as usize;
        if r.chance(1, 2) {
            // ... or of the largest size any course reaches WITHOUT its instructors (a bound that forgets them)
            full = courses.iter().map(|c| (f32::from_bits(c.obits) + f32::from_bits(c.fbits) * c.max as f32).ceil() as usize).max().unwrap_or(0);
        }
        let n = nc + r.range(0, 2);
        let d = r.range(0, 2);
        return (0..n).map(|i| if i == 0 && r.chance(1, 3) { full } else { full.saturating_sub(d) }).collect();
    }
    let top = courses.iter().map(|c| c.max + c.instr.len()).max().unwrap_or(1) + 2;
    let tight = r.chance(1, 2);
    (0..len)
        .map(|_| if tight { r.range(0, top) } else { r.range(top / 2, 2 * top + 3) })
        .collect()
}

pub fn build(inst: &Inst) -> (Vec<Course>, Vec<Participant>) {
    let courses = inst
        .courses
        .iter()
        .enumerate()
        .map(|(i, c)| {
            // hidden extra names (people the reader left out, shown in the listing only): they must not influence the solver at all -- every
            // third course or so carries one to three of them
            let nh = if (i + c.min + 2 * c.max + c.instr.len()) % 3 == 0 { 1 + (c.max + i) % 3 } else { 0 };
            let hidden: Vec<String> = (0..nh).map(|k| format!("hidden {} of c{}", k, i)).collect();
            make_course(i, i, format!("c{}", i), c.min, c.max, c.instr.clone(), c.fbits, c.obits, c.fixed, hidden)
        })
        .collect();
    let parts = inst
        .parts
        .iter()
        .enumerate()
        .map(|(i, p)| make_participant(i, i, format!("p{}", i), p.clone()))
        .collect();
    (courses, parts)
}

pub type NOut = Option<VResult>; // None = panic

pub fn run_impl(inst: &Inst, node: &VNode) -> NOut {
    let (courses, parts) = build(inst);
    let rooms = inst.rooms.clone();
    let node = node.clone();
    std::panic::catch_unwind(move || {
        let pre = precompute(&courses, &parts, rooms.as_ref());
        run_node(&courses, &parts, &pre, &node)
    })
    .ok()
}

/// the node function with the logging option `report_no_solution` switched on: the option must not change what the node function returns
pub fn run_impl_report(inst: &Inst, node: &VNode) -> NOut {
    let (courses, parts) = build(inst);
    let rooms = inst.rooms.clone();
    let node = node.clone();
    std::panic::catch_unwind(move || {
        let pre = precompute(&courses, &parts, rooms.as_ref());
        run_node_opt(&courses, &parts, &pre, &node, true)
    })
    .ok()
}

pub fn g_node(n: &VNode) -> String {
    format!(
        "({}, {}, {})",
        g_natlist(&n.cancelled),
        g_natlist(&n.enforced),
        g_list(&n.shrinked, |(c, s)| format!("({}, {})", g_nat(*c), g_nat(*s)))
    )
}
pub fn g_assignment(a: &[Option<usize>]) -> String {
    g_list(a, |o| g_opt(o, |c| g_nat(*c)))
}
pub fn g_inst_parts(inst: &Inst) -> (String, String, String) {
    (
        g_list(&inst.courses, |c| {
            format!(
                "({}, {}, {}, {}, {}, {})",
                g_nat(c.min),
                g_nat(c.max),
                g_natlist(&c.instr),
                g_bool(c.fixed),
                g_z(c.fbits as i128),
                g_z(c.obits as i128)
            )
        }),
        g_list(&inst.parts, |p| g_list(p, |(c, pen)| format!("({}, {})", g_nat(*c), g_z(*pen as i128)))),
        g_opt(&inst.rooms, |r| g_natlist(r)),
    )
}
pub fn g_inst(inst: &Inst) -> String {
    let (a, b, c) = g_inst_parts(inst);
    format!("{}, {}, {}", a, b, c)
}
pub fn g_case(inst: &Inst, node: &VNode, out: &NOut) -> String {
    let res = match out {
        None => String::from("PPanic"),
        Some(VResult::NoSolution) => String::from("PNoSol"),
        Some(VResult::Infeasible(cs, s)) => format!("PInf {} {}", g_list(cs, g_node), g_z(*s as i128)),
        Some(VResult::Feasible(a, s)) => format!("PFeas {} {}", g_assignment(a), g_z(*s as i128)),
    };
    format!("({}, {}, {})", g_inst(inst), g_node(node), res)
}

pub fn j_node(n: &VNode) -> serde_json::Value {
    json!({"cancelled": n.cancelled, "enforced": n.enforced, "shrinked": n.shrinked})
}
pub fn j_inst(inst: &Inst) -> serde_json::Value {
    json!({"courses": inst.courses.iter().map(|c| json!({"min": c.min, "max": c.max, "instr": c.instr, "fixed": c.fixed,
                "factor": f32::from_bits(c.fbits), "offset": f32::from_bits(c.obits), "fbits": c.fbits, "obits": c.obits})).collect::<Vec<_>>(),
           "parts": inst.parts, "rooms": inst.rooms, "style": inst.style})
}
pub fn inst_from_json(v: &serde_json::Value) -> Inst {
    let us = |x: &serde_json::Value| x.as_u64().unwrap() as usize;
    Inst {
        courses: v["courses"]
            .as_array()
            .unwrap()
            .iter()
            .map(|c| ICourse {
                min: us(&c["min"]),
                max: us(&c["max"]),
                instr: c["instr"].as_array().unwrap().iter().map(us).collect(),
                fixed: c["fixed"].as_bool().unwrap(),
                fbits: c["fbits"].as_u64().unwrap() as u32,
                obits: c["obits"].as_u64().unwrap() as u32,
            })
            .collect(),
        parts: v["parts"]
            .as_array()
            .unwrap()
            .iter()
            .map(|p| {
                p.as_array()
                    .unwrap()
                    .iter()
                    .map(|ch| (us(&ch[0]), ch[1].as_u64().unwrap() as u32))
                    .collect()
            })
            .collect(),
        rooms: if v["rooms"].is_null() { None } else { Some(v["rooms"].as_array().unwrap().iter().map(us).collect()) },
        style: String::from("replay"),
    }
}
pub fn node_from_json(v: &serde_json::Value) -> VNode {
    let us = |x: &serde_json::Value| x.as_u64().unwrap() as usize;
    VNode {
        cancelled: v["cancelled"].as_array().unwrap().iter().map(us).collect(),
        enforced: v["enforced"].as_array().unwrap().iter().map(us).collect(),
        shrinked: v["shrinked"].as_array().unwrap().iter().map(|p| (us(&p[0]), us(&p[1]))).collect(),
    }
}
pub fn j_out(out: &NOut) -> serde_json::Value {
    match out {
        None => json!("panic"),
        Some(VResult::NoSolution) => json!("nosolution"),
        Some(VResult::Infeasible(cs, s)) => json!({"infeasible": cs.iter().map(j_node).collect::<Vec<_>>(), "score": s}),
        Some(VResult::Feasible(a, s)) => json!({"feasible": a, "score": s}),
    }
}

pub fn root() -> VNode {
    VNode { cancelled: vec![], enforced: vec![], shrinked: vec![] }
}

/// walks the subproblem tree of an instance: returns up to `limit` (node, outcome) pairs, the root first
pub fn walk(r: &mut Rng, inst: &Inst, limit: usize) -> Vec<(VNode, NOut)> {
    let mut todo = vec![root()];
    let mut res = Vec::new();
    while !todo.is_empty() && res.len() < limit {
        // mostly depth first (as the real engine), sometimes a random pending node
        let i = if r.chance(3, 4) { todo.len() - 1 } else { r.below(todo.len()) };
        let nd = todo.swap_remove(i);
        let out = run_impl(inst, &nd);
        if let Some(VResult::Infeasible(cs, _)) = &out {
            for c in cs.iter() {
                todo.push(c.clone());
            }
        }
        res.push((nd, out));
    }
    res
}

/// a random (not necessarily reachable) node with all indices in range
pub fn random_node(r: &mut Rng, inst: &Inst) -> VNode {
    let nc = inst.courses.len();
    let mut n = root();
    for c in 0..nc {
        match r.below(5) {
            0 => n.cancelled.push(c),
            1 => n.enforced.push(c),
            _ => {}
        }
        if r.chance(1, 4) {
            n.shrinked.push((c, r.range(0, inst.courses[c].max + 1)));
        }
    }
    if r.chance(1, 6) && nc > 0 {
        n.shrinked.push((r.below(nc), r.range(0, 3)));
    }
    // the room stage can list a course twice (once in the k-selection and once among the constraints that always apply): nodes with a
    // repeated cancelled / enforced entry are reachable
    if r.chance(1, 4) && !n.cancelled.is_empty() {
        let c = *r.pick(&n.cancelled);
        n.cancelled.push(c);
    }
    if r.chance(1, 8) && !n.enforced.is_empty() {
        let c = *r.pick(&n.enforced);
        n.enforced.push(c);
    }
    n
}

pub fn write_cases(cases: &[(Inst, VNode, NOut)], shards: usize, outdir: &str, prefix: &str) {
    let mut text: Vec<Vec<String>> = vec![Vec::new(); shards];
    let mut metas: Vec<Vec<serde_json::Value>> = vec![Vec::new(); shards];
    for (i, (inst, nd, o)) in cases.iter().enumerate() {
        text[i % shards].push(g_case(inst, nd, o));
        let o_report = run_impl_report(inst, nd);
        metas[i % shards].push(json!({"inst": j_inst(inst), "node": j_node(nd), "impl": j_out(o), "report_flag_same": o_report == *o,
                                      "impl_with_report_no_solution": if o_report == *o { json!(null) } else { j_out(&o_report) }}));
    }
    for s in 0..shards {
        if text[s].is_empty() {
            continue;
        }
        let f = cases_file("Require Import CorrNode.\nOpen Scope list_scope.", "node_case", "check_node", &text[s]);
        std::fs::write(format!("{}/cases_{}_{:02}.v", outdir, prefix, s), f).unwrap();
        std::fs::write(format!("{}/cases_{}_{:02}.json", outdir, prefix, s), serde_json::to_string(&metas[s]).unwrap()).unwrap();
    }
}

pub fn run(
    seed: u64,
    count: usize,
    max_c: usize,
    max_p: usize,
    rooms_mode: usize,
    per_inst: usize,
    shards: usize,
    outdir: &str,
    replay: Option<String>,
) {
    std::panic::set_hook(Box::new(|_| {}));
    let mut cases: Vec<(Inst, VNode, NOut)> = Vec::new();
    let mut hist = std::collections::BTreeMap::<String, usize>::new();
    if let Some(path) = replay {
        let v: serde_json::Value = serde_json::from_str(&std::fs::read_to_string(path).unwrap()).unwrap();
        let list = if v.is_array() { v.as_array().unwrap().clone() } else { vec![v] };
        for m in list {
            let inst = inst_from_json(&m["inst"]);
            let nd = node_from_json(&m["node"]);
            let o = run_impl(&inst, &nd);
            cases.push((inst, nd, o));
        }
    } else {
        let mut r = Rng::new(seed);
        for i in 0..count {
            let mc = 1 + (max_c - 1) * (i + 1) / count.max(1);
            let mp = 1 + (max_p - 1) * (i + 1) / count.max(1);
            let inst = gen_inst(&mut r, mc.max(1), mp.max(1), rooms_mode);
            *hist.entry(format!("style:{}", inst.style)).or_insert(0) += 1;
            *hist.entry(String::from(if inst.rooms.is_some() { "with_rooms" } else { "without_rooms" })).or_insert(0) += 1;
            let places: usize = inst.courses.iter().map(|c| c.max).sum();
            let real = inst.parts.iter().filter(|p| !p.is_empty()).count();
            *hist
                .entry(String::from(if places < real {
                    "places<participants"
                } else if places == real {
                    "places=participants"
                } else {
                    "places>participants"
                }))
                .or_insert(0) += 1;
            if inst.parts.iter().enumerate().any(|(p, ch)| !ch.is_empty() && inst.courses.iter().any(|c| c.instr.contains(&p))) {
                *hist.entry(String::from("class_TC(instructor with choices)")).or_insert(0) += 1;
            }
            let walked = walk(&mut r, &inst, per_inst);
            // a reachable node with one of its cancelled courses listed twice (the room stage produces such nodes when a course is in the
            // k-selection and among the constraints that always apply)
            if let Some((nd, _)) = walked.iter().rev().find(|(nd, _)| !nd.cancelled.is_empty()) {
                if r.chance(1, 2) {
                    let mut nd2 = nd.clone();
                    let c = *r.pick(&nd2.cancelled);
                    nd2.cancelled.push(c);
                    let o = run_impl(&inst, &nd2);
                    *hist.entry(String::from("nodes_with_repeated_cancel")).or_insert(0) += 1;
                    cases.push((inst.clone(), nd2, o));
                }
            }
            for (nd, o) in walked {
                cases.push((inst.clone(), nd, o));
            }
            if r.chance(2, 3) {
                let nd = random_node(&mut r, &inst);
                let o = run_impl(&inst, &nd);
                *hist.entry(String::from("random_nodes")).or_insert(0) += 1;
                cases.push((inst.clone(), nd, o));
            }
            // a directed instance + node: m participants choose ONLY course c, c is shrunk (as the room stage does) to fewer than m places, another
            // course d keeps free places, nothing is enforced or cancelled and no course is full by its static maximum: the overflow can only sit
            // in a course it did not choose
            if inst.rooms.is_some() && inst.courses.len() >= 2 && r.chance(1, 3) {
                let nc = inst.courses.len();
                let c = r.below(nc);
                let d = (c + 1 + r.below(nc - 1)) % nc;
                let mut i2 = inst.clone();
                i2.courses[c].max = i2.courses[c].max.max(3);
                i2.courses[d].max = i2.courses[d].max.max(3);
                let free: Vec<usize> = (0..i2.parts.len()).filter(|p| !i2.courses.iter().any(|cc| cc.instr.contains(p))).collect();
                if free.len() >= 2 {
                    let m = free.len().min(i2.courses[c].max).min(r.range(2, 4));
                    for (k, p) in free.iter().enumerate() {
                        i2.parts[*p] = if k < m { vec![(c, 0)] } else if k < m + i2.courses[d].max - 2 && r.chance(1, 2) { vec![(d, 0)] } else { Vec::new() };
                    }
                    let sz = m - r.range(1, 2.min(m));
                    i2.courses[c].min = i2.courses[c].min.min(sz);
                    i2.courses[d].min = 0;
                    i2.style.push_str("+onlyc");
                    let nd = VNode { cancelled: vec![], enforced: vec![], shrinked: vec![(c, sz)] };
                    let o = run_impl(&i2, &nd);
                    *hist.entry(String::from("directed_exclusive_choosers_of_a_shrunk_course")).or_insert(0) += 1;
                    cases.push((i2, nd, o));
                }
            }
            // a directed node: the most popular course shrunk (as the room stage does) below the number of its choosers, nothing enforced or
            // cancelled -- the overflow has to be recognised by the wrong-course scan although no course is full by its static maximum
            if inst.rooms.is_some() && r.chance(1, 2) {
                let nc = inst.courses.len();
                let choosers: Vec<usize> = (0..nc).map(|c| inst.parts.iter().filter(|ch| ch.iter().any(|(cc, _)| *cc == c)).count()).collect();
                if let Some(c) = (0..nc).max_by_key(|c| choosers[*c]) {
                    if choosers[c] >= 2 && inst.courses[c].max >= 1 {
                        let hi = (choosers[c] - 1).min(inst.courses[c].max);
                        let lo = inst.courses[c].min.min(hi);
                        let sz = r.range(lo, hi);
                        let nd = VNode { cancelled: vec![], enforced: vec![], shrinked: vec![(c, sz)] };
                        let o = run_impl(&inst, &nd);
                        *hist.entry(String::from("directed_shrink_overflow_nodes")).or_insert(0) += 1;
                        cases.push((inst.clone(), nd, o));
                    }
                }
            }
        }
    }
    for (_, nd, o) in cases.iter() {
        let k = match o {
            None => "impl:panic",
            Some(VResult::NoSolution) => "impl:nosolution",
            Some(VResult::Infeasible(..)) => "impl:infeasible",
            Some(VResult::Feasible(..)) => "impl:feasible",
        };
        *hist.entry(String::from(k)).or_insert(0) += 1;
        if !nd.shrinked.is_empty() {
            *hist.entry(String::from("node_with_shrink")).or_insert(0) += 1;
        }
        if let Some(VResult::Infeasible(cs, _)) = o {
            if cs.len() > 2 {
                *hist.entry(String::from("room_branching(>2 children)")).or_insert(0) += 1;
            }
            if cs.is_empty() {
                *hist.entry(String::from("infeasible_without_children")).or_insert(0) += 1;
            }
        }
    }
    write_cases(&cases, shards, outdir, "node");
    println!("{}", json!({"cases": cases.len(), "hist": hist}));
}
