//! Schedulers for the shim of src/verif/sync.rs and conversion of a recorded history into model events.
use crate::gen::*;
use cdecao::verif::sync::{Action, Chooser, Record};
use std::sync::{Arc, Mutex};

/// A schedule is the list of choices (index into the enabled actions) taken so far; every chooser logs its choices and
/// the number of alternatives, so that any run can be replayed exactly from the list of integers.
#[derive(Clone, Default, Debug)]
pub struct ChoiceLog {
    pub choices: Vec<usize>,
    pub widths: Vec<usize>,
}

pub fn replay_chooser(prefix: Vec<usize>, log: Arc<Mutex<ChoiceLog>>) -> Chooser {
    // follows `prefix`, afterwards always the first enabled action
    let mut pos = 0usize;
    Box::new(move |en: &[Action]| {
        let c = if pos < prefix.len() { prefix[pos] % en.len() } else { 0 };
        pos += 1;
        let mut l = log.lock().unwrap();
        l.choices.push(c);
        l.widths.push(en.len());
        c
    })
}

pub fn random_chooser(seed: u64, log: Arc<Mutex<ChoiceLog>>) -> Chooser {
    let mut r = Rng::new(seed);
    Box::new(move |en: &[Action]| {
        let c = r.below(en.len());
        let mut l = log.lock().unwrap();
        l.choices.push(c);
        l.widths.push(en.len());
        c
    })
}

/// PCT-like: random thread priorities, the enabled action of the highest-priority thread is taken; at a few random
/// points the running thread's priority drops below all others
pub fn pct_chooser(seed: u64, depth: usize, log: Arc<Mutex<ChoiceLog>>) -> Chooser {
    let mut r = Rng::new(seed);
    let mut prio: Vec<u64> = (0..64).map(|_| 1000 + r.below(1000) as u64).collect();
    let change: Vec<usize> = (0..depth).map(|_| r.below(60)).collect();
    let mut step = 0usize;
    Box::new(move |en: &[Action]| {
        let tid = |a: &Action| match a {
            Action::Start(t) | Action::Acquire(t) | Action::Spurious(t) | Action::Join(t) | Action::Wake(t) => *t,
        };
        let mut best = 0usize;
        for (i, a) in en.iter().enumerate() {
            // spurious wake-ups only with low probability
            if matches!(a, Action::Spurious(_)) && !r.chance(1, 8) {
                continue;
            }
            if matches!(en[best], Action::Spurious(_)) || prio[tid(a) % 64] > prio[tid(&en[best]) % 64] {
                best = i;
            }
        }
        if change.contains(&step) {
            let t = tid(&en[best]) % 64;
            prio[t] = step as u64;
        }
        step += 1;
        let mut l = log.lock().unwrap();
        l.choices.push(best);
        l.widths.push(en.len());
        best
    })
}

/// next schedule prefix in a depth-first enumeration of all schedules (stateless DFS): increments the last choice that
/// still has an untried alternative and drops everything behind it
pub fn dfs_next(log: &ChoiceLog) -> Option<Vec<usize>> {
    let mut i = log.choices.len();
    while i > 0 {
        i -= 1;
        if log.choices[i] + 1 < log.widths[i] {
            let mut p = log.choices[..i].to_vec();
            p.push(log.choices[i] + 1);
            return Some(p);
        }
    }
    None
}

/// model events (worker index = shim thread id - 1)
#[derive(Clone, Debug)]
pub enum Ev {
    Acq(usize),
    PopSolve(usize, String, String),
    PopBound(usize, String, String),
    ExitYes(usize),
    ExitNo(usize),
    EmptyWait(usize),
    EmptyDone(usize),
    FinNo(usize),
    FinFeas(usize, String, bool),
    FinInf(usize, String, String),
    FinPanic(usize),
    Wake(usize),
}

#[derive(Clone, Copy, PartialEq, Debug)]
enum WS {
    Ready,
    InCs,
    Solving,
    Waiting,
    Stopped,
}

pub struct Converted {
    pub events: Vec<Ev>,
    /// (found, score) as reported by the `result` hook of bab::solve (None if solve did not get there)
    pub result_hook: Option<(bool, String)>,
    pub problems: Vec<String>,
}

/// Converts the shim history into model events.  `k` = number of workers.
pub fn convert(trace: &[Record], k: usize) -> Converted {
    let mut st = vec![WS::Ready; k];
    let mut ev = Vec::new();
    let mut result_hook = None;
    let mut problems = Vec::new();
    for rec in trace {
        match rec {
            Record::Sched(Action::Acquire(t)) if *t >= 1 && *t <= k => {
                let i = t - 1;
                match st[i] {
                    WS::Ready => {
                        ev.push(Ev::Acq(i));
                        st[i] = WS::InCs;
                    }
                    WS::Solving => st[i] = WS::InCs,
                    other => problems.push(format!("acquire by worker {} in state {:?}", i, other)),
                }
            }
            Record::Sched(Action::Wake(t)) | Record::Sched(Action::Spurious(t)) if *t >= 1 && *t <= k => {
                let i = t - 1;
                if st[i] == WS::Waiting {
                    ev.push(Ev::Wake(i));
                    st[i] = WS::Ready;
                } else {
                    problems.push(format!("wake of worker {} in state {:?}", i, st[i]));
                }
            }
            Record::NotifyAll(_) => {
                for s in st.iter_mut() {
                    if *s == WS::Waiting {
                        *s = WS::Ready;
                    }
                }
            }
            Record::Hook(t, s) => {
                let parts: Vec<&str> = s.splitn(3, '|').collect();
                if *t == 0 {
                    if parts[0] == "result" && parts.len() == 3 {
                        result_hook = Some((parts[1] == "true", parts[2].to_string()));
                    }
                    continue;
                }
                let i = t - 1;
                match parts[0] {
                    "pop_solve" => {
                        ev.push(Ev::PopSolve(i, parts[1].to_string(), parts[2].to_string()));
                        st[i] = WS::Solving;
                    }
                    "pop_bound" => ev.push(Ev::PopBound(i, parts[1].to_string(), parts[2].to_string())),
                    "exit_yes" => {
                        ev.push(Ev::ExitYes(i));
                        st[i] = WS::Stopped;
                    }
                    "exit_no" => ev.push(Ev::ExitNo(i)),
                    "empty_wait" => {
                        ev.push(Ev::EmptyWait(i));
                        st[i] = WS::Waiting;
                    }
                    "empty_done" => {
                        ev.push(Ev::EmptyDone(i));
                        st[i] = WS::Stopped;
                    }
                    "finish_nosol" => ev.push(Ev::FinNo(i)),
                    "finish_feas" => ev.push(Ev::FinFeas(i, parts[1].to_string(), parts[2] == "1")),
                    "finish_inf" => ev.push(Ev::FinInf(i, parts[1].to_string(), parts[2].to_string())),
                    "finish_panic" => {
                        ev.push(Ev::FinPanic(i));
                        st[i] = WS::Stopped;
                    }
                    other => problems.push(format!("unknown hook {}", other)),
                }
            }
            _ => {}
        }
    }
    Converted { events: ev, result_hook, problems }
}
