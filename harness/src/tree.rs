//! Generic engine (C04, C09, C19, C03): bab::solve on synthetic subproblem trees under the scheduler shim.
use crate::gen::*;
use crate::sched::*;
use cdecao::verif::sync;
use cdecao::verif::{bab_solve, NodeResult};
use serde_json::json;
use std::sync::{Arc, Mutex};

#[derive(Clone, Debug)]
pub enum TNode {
    No,
    Inf(Vec<usize>, u32),
    Feas(u32),
    Panic,
}

/// random tree with `n` nodes; children always have larger ids than their parent; node 0 is the root
pub fn gen_tree(r: &mut Rng, n: usize, panic_nodes: usize, consistent: bool) -> Vec<TNode> {
    // shape: parent of node i (i >= 1) is a random earlier node that is allowed to be inner
    let mut children: Vec<Vec<usize>> = vec![Vec::new(); n];
    let wide = r.chance(1, 3);
    for i in 1..n {
        let p = if wide { r.below(i) } else { i - 1 - r.below(i.min(3)) };
        children[p].push(i);
    }
    // scores: assign leaf kinds and scores bottom-up so that (if requested) inner score >= all feasible scores below
    let style = r.below(5); // 0 small with ties, 1 tight (equal to the best below), 2 extremes, 3 random, 4 all equal
    let mut best_below: Vec<Option<u32>> = vec![None; n];
    let mut nodes = vec![TNode::No; n];
    let mut rnd_score = |r: &mut Rng| -> u32 {
        match style {
            0 => r.below(4) as u32,
            1 => r.below(6) as u32,
            2 => *r.pick(&[0u32, 1, u32::MAX - 1, u32::MAX, 7]),
            4 => 5,
            _ => r.below(1000) as u32,
        }
    };
    for i in (0..n).rev() {
        if children[i].is_empty() {
            nodes[i] = match r.below(6) {
                0 => TNode::No,
                1 => TNode::Inf(vec![], rnd_score(r)),
                _ => {
                    let s = rnd_score(r);
                    best_below[i] = Some(s);
                    TNode::Feas(s)
                }
            };
        } else {
            let below = children[i].iter().filter_map(|c| best_below[*c]).max();
            best_below[i] = below;
            let s = match (consistent, below) {
                (true, Some(b)) => match style {
                    1 | 4 => b,
                    2 => *r.pick(&[b, u32::MAX]),
                    _ => b.saturating_add(r.below(3) as u32),
                },
                (true, None) => rnd_score(r),
                (false, _) => rnd_score(r),
            };
            // sometimes the children are listed in descending id order
            let mut cs = children[i].clone();
            if r.chance(1, 3) {
                cs.reverse();
            }
            nodes[i] = TNode::Inf(cs, s);
        }
    }
    for _ in 0..panic_nodes {
        let i = r.below(n);
        nodes[i] = TNode::Panic;
    }
    nodes
}

/// a broad bound-consistent tree: the root has 2-3 inner children with 7-10 (one of them 17-24) leaves each (plus leaves of its own), so that 16 and more
/// subproblems are pending at once; leaf scores spread, inner scores = best leaf below (+ 0..2)
pub fn gen_broad_tree(r: &mut Rng) -> Vec<TNode> {
    let ninner = r.range(2, 3);
    let mut nodes: Vec<TNode> = vec![TNode::No];
    let mut root_children = Vec::new();
    let mut best_all: Option<u32> = None;
    let mut inner_ids = Vec::new();
    for _ in 0..ninner {
        inner_ids.push(nodes.len());
        root_children.push(nodes.len());
        nodes.push(TNode::No);
    }
    for _ in 0..r.range(0, 3) {
        let s = r.below(1000) as u32;
        root_children.push(nodes.len());
        nodes.push(TNode::Feas(s));
        best_all = Some(best_all.map_or(s, |b| b.max(s)));
    }
    for id in inner_ids {
        // one of the inner nodes is very broad: 17-24 children pending at once below a single node
        let nleaf = if id == 1 { r.range(17, 24) } else { r.range(7, 10) };
        let mut cs = Vec::new();
        let mut best: Option<u32> = None;
        for _ in 0..nleaf {
            cs.push(nodes.len());
            if r.chance(1, 8) {
                nodes.push(TNode::No);
            } else {
                let s = r.below(1000) as u32;
                nodes.push(TNode::Feas(s));
                best = Some(best.map_or(s, |b| b.max(s)));
            }
        }
        if r.chance(1, 2) {
            cs.reverse();
        }
        let sc = best.unwrap_or(0).saturating_add(r.below(3) as u32);
        nodes[id] = TNode::Inf(cs, sc);
        best_all = match (best_all, best) {
            (Some(a), Some(b)) => Some(a.max(b)),
            (a, None) => a,
            (None, b) => b,
        };
    }
    r.shuffle(&mut root_children);
    nodes[0] = TNode::Inf(root_children, best_all.unwrap_or(0).saturating_add(r.below(3) as u32));
    nodes
}

/// a huge flat tree: below the root one inner node with `n` leaves (and a few leaves of the root's own), so that `n` subproblems are pending at
/// once -- thresholds on the queue length (16, 1024, ...) are crossed; many leaves share the best score, which equals the inner node's bound
pub fn gen_huge_tree(r: &mut Rng, n: usize) -> Vec<TNode> {
    let mut nodes: Vec<TNode> = vec![TNode::No, TNode::No];
    let mut root_children = vec![1usize];
    let top = r.range(3, 900) as u32;
    let mut best_all = top;
    for _ in 0..r.range(0, 2) {
        let s = r.below(1000) as u32;
        root_children.push(nodes.len());
        nodes.push(TNode::Feas(s));
        best_all = best_all.max(s);
    }
    let mut cs = Vec::new();
    for i in 0..n {
        cs.push(nodes.len());
        if r.chance(1, 10) {
            nodes.push(TNode::No);
        } else if i == n / 2 || r.chance(1, 6) {
            nodes.push(TNode::Feas(top));
        } else {
            nodes.push(TNode::Feas(r.below(top as usize + 1) as u32));
        }
    }
    if r.chance(1, 2) {
        cs.reverse();
    }
    nodes[1] = TNode::Inf(cs, top + r.below(2) as u32);
    r.shuffle(&mut root_children);
    nodes[0] = TNode::Inf(root_children, best_all + r.below(3) as u32);
    nodes
}

/// A subproblem of the synthetic tree.  Like caobab's BABNode it is ordered by its depth in the tree ONLY: different nodes of one
/// layer compare equal (so a container that identifies entries comparing equal loses subproblems).  Debug prints the id alone.
#[derive(Clone, Copy)]
pub struct TSub {
    pub id: usize,
    pub depth: usize,
}
impl std::fmt::Debug for TSub {
    fn fmt(&self, f: &mut std::fmt::Formatter<'_>) -> std::fmt::Result {
        write!(f, "{}", self.id)
    }
}
impl PartialEq for TSub {
    fn eq(&self, other: &Self) -> bool {
        self.depth == other.depth
    }
}
impl Eq for TSub {}
impl PartialOrd for TSub {
    fn partial_cmp(&self, other: &Self) -> Option<std::cmp::Ordering> {
        Some(self.cmp(other))
    }
}
impl Ord for TSub {
    fn cmp(&self, other: &Self) -> std::cmp::Ordering {
        self.depth.cmp(&other.depth)
    }
}

/// a tree of ties: 2-3 layers of inner nodes that ALL carry the same score (>= every leaf), each with 2-3 children, so that with
/// two or more workers the branches of different parents with equal parent score (and equal position among their siblings) are
/// pending at the same time in one layer; the leaves are feasible with scores up to the common bound, the optimum anywhere
pub fn gen_tie_tree(r: &mut Rng) -> Vec<TNode> {
    let bound = r.range(5, 9) as u32;
    let layers = r.range(2, 3);
    let mut nodes: Vec<TNode> = vec![TNode::No];
    let mut frontier = vec![0usize];
    for layer in 0..layers {
        let mut next = Vec::new();
        for id in frontier {
            let nch = r.range(2, 3);
            let mut cs = Vec::new();
            for _ in 0..nch {
                cs.push(nodes.len());
                next.push(nodes.len());
                nodes.push(TNode::No);
            }
            nodes[id] = TNode::Inf(cs, bound);
        }
        frontier = next;
        if layer + 1 == layers {
            for id in &frontier {
                nodes[*id] = if r.chance(1, 10) { TNode::No } else { TNode::Feas(r.below(bound as usize + 1) as u32) };
            }
        }
    }
    nodes
}

pub struct TRun {
    pub events: Vec<Ev>,
    pub result: Option<(usize, u32)>,
    pub found: bool,
    pub outcome: usize, // 0 returned, 1 deadlock, 2 panic propagated
    pub stats: Vec<u64>,
    pub problems: Vec<String>,
    pub log: ChoiceLog,
    pub failed: usize, // executions of the node function that panicked
    pub generated: usize, // subproblems handed to the engine: the root and every child of an executed Infeasible node (counted by the node function)
    pub solved: usize,    // executions of the node function
}

pub fn run_tree(tree: &[TNode], k: usize, chooser_of: impl FnOnce(Arc<Mutex<ChoiceLog>>) -> sync::Chooser, spurious: bool) -> TRun {
    let log = Arc::new(Mutex::new(ChoiceLog::default()));
    let chooser = chooser_of(log.clone());
    let t: Arc<Vec<TNode>> = Arc::new(tree.to_vec());
    let t2 = t.clone();
    // how often the node function failed (counted independently of the recorded history)
    let failed = Arc::new(std::sync::atomic::AtomicUsize::new(0));
    let failed2 = failed.clone();
    let generated = Arc::new(std::sync::atomic::AtomicUsize::new(1));
    let generated2 = generated.clone();
    let solved = Arc::new(std::sync::atomic::AtomicUsize::new(0));
    let solved2 = solved.clone();
    let rr = sync::run(chooser, spurious, move || {
        bab_solve(
            move |sub: TSub| -> NodeResult<TSub, usize, u32> {
                let n = sub.id;
                solved2.fetch_add(1, std::sync::atomic::Ordering::SeqCst);
                if let TNode::Inf(cs, _) = &t2[n] {
                    generated2.fetch_add(cs.len(), std::sync::atomic::Ordering::SeqCst);
                }
                match &t2[n] {
                    TNode::No => NodeResult::NoSolution,
                    TNode::Inf(cs, s) => NodeResult::Infeasible(cs.iter().map(|c| TSub { id: *c, depth: sub.depth + 1 }).collect(), *s),
                    TNode::Feas(s) => NodeResult::Feasible(n, *s),
                    TNode::Panic => {
                        failed2.fetch_add(1, std::sync::atomic::Ordering::SeqCst);
                        // the payload of a failing node solver is arbitrary: a short literal, a formatted text, a long text full of
                        // multi-byte characters (no character boundary at any even byte offset, nor at multiples of 3 later on), no text
                        match n % 4 {
                            0 => panic!("node solver fails"),
                            1 => panic!("node solver fails on node {}", n),
                            2 => panic!("x{}y{}\n{}", "\u{df}".repeat(90), "\u{20ac}".repeat(120), "Zeile \u{1f600}\n".repeat(40)),
                            _ => std::panic::panic_any(n as u32),
                        }
                    }
                }
            },
            TSub { id: 0, depth: 0 },
            k as u32,
        )
    });
    let conv = convert(&rr.trace, k);
    let (result, found, outcome, stats) = match rr.result {
        None => (None, false, 1, vec![]),
        Some(Err(_)) => (None, false, if rr.deadlock { 1 } else { 2 }, vec![]),
        Some(Ok((res, st))) => (
            res,
            res.is_some(),
            if rr.deadlock { 1 } else { 0 },
            vec![
                st.num_executed_subproblems as u64,
                st.num_no_solution as u64,
                st.num_infeasible as u64,
                st.num_feasible as u64,
                st.num_bound_subproblems as u64,
            ],
        ),
    };
    let l = log.lock().unwrap().clone();
    TRun { events: conv.events, result, found, outcome, stats, problems: conv.problems, log: l, failed: failed.load(std::sync::atomic::Ordering::SeqCst),
           generated: generated.load(std::sync::atomic::Ordering::SeqCst), solved: solved.load(std::sync::atomic::Ordering::SeqCst) }
}

pub fn g_ev(e: &Ev, node: &dyn Fn(&str) -> String, nodes: &dyn Fn(&str) -> String) -> String {
    match e {
        Ev::Acq(i) => format!("PAcq {}", i),
        Ev::PopSolve(i, n, ps) => format!("PPopSolve {} {} {}%Z", i, node(n), ps),
        Ev::PopBound(i, n, ps) => format!("PPopBound {} {} {}%Z", i, node(n), ps),
        Ev::ExitYes(i) => format!("PExitYes {}", i),
        Ev::ExitNo(i) => format!("PExitNo {}", i),
        Ev::EmptyWait(i) => format!("PEmptyWait {}", i),
        Ev::EmptyDone(i) => format!("PEmptyDone {}", i),
        Ev::FinNo(i) => format!("PFinNo {}", i),
        Ev::FinFeas(i, s, nb) => format!("PFinFeas {} {}%Z {}", i, s, g_bool(*nb)),
        Ev::FinInf(i, s, cs) => format!("PFinInf {} {}%Z {}", i, s, nodes(cs)),
        Ev::FinPanic(i) => format!("PFinPanic {}", i),
        Ev::Wake(i) => format!("PWake {}", i),
    }
}

fn g_tnode(t: &TNode) -> String {
    match t {
        TNode::No => String::from("TNo"),
        TNode::Inf(cs, s) => format!("TInf {} {}%Z", g_natlist(cs), s),
        TNode::Feas(s) => format!("TFeas {}%Z", s),
        TNode::Panic => String::from("TPanic"),
    }
}
fn j_tnode(t: &TNode) -> serde_json::Value {
    match t {
        TNode::No => json!("no"),
        TNode::Inf(cs, s) => json!({"inf": cs, "score": s}),
        TNode::Feas(s) => json!({"feas": s}),
        TNode::Panic => json!("panic"),
    }
}
pub fn tree_from_json(v: &serde_json::Value) -> Vec<TNode> {
    v.as_array()
        .unwrap()
        .iter()
        .map(|t| {
            if t == "no" {
                TNode::No
            } else if t == "panic" {
                TNode::Panic
            } else if !t["feas"].is_null() {
                TNode::Feas(t["feas"].as_u64().unwrap() as u32)
            } else {
                TNode::Inf(
                    t["inf"].as_array().unwrap().iter().map(|x| x.as_u64().unwrap() as usize).collect(),
                    t["score"].as_u64().unwrap() as u32,
                )
            }
        })
        .collect()
}

pub fn g_case(tree: &[TNode], k: usize, run: &TRun) -> String {
    let node = |s: &str| -> String { s.trim().parse::<usize>().map(g_nat).unwrap_or_else(|_| s.trim().to_string()) };
    let nodes = |s: &str| -> String {
        // Debug of Vec<usize>: [1, 2, 3]
        let inner = s.trim().trim_start_matches('[').trim_end_matches(']');
        let v: Vec<usize> = inner.split(',').filter_map(|x| x.trim().parse().ok()).collect();
        g_natlist(&v)
    };
    format!(
        "({}, {}, {}, {}, {}, {}, {})",
        g_list(tree, g_tnode),
        k,
        g_list(&run.events, |e| g_ev(e, &node, &nodes)),
        match run.result {
            None => String::from("None"),
            Some((x, s)) => format!("Some ({}, {}%Z)", g_nat(x), s),
        },
        g_bool(run.found),
        run.outcome,
        g_list(&run.stats, |x| g_n(*x as u128))
    )
}

pub struct Plan {
    pub seed: u64,
    pub trees: usize,
    pub max_nodes: usize,
    pub scheds_per_tree: usize,
    pub panics: bool,
    pub dfs_budget: usize,
    pub max_k: usize,
}

pub fn run(plan: Plan, shards: usize, outdir: &str, replay: Option<String>) {
    std::panic::set_hook(Box::new(|_| {}));
    let mut r = Rng::new(plan.seed);
    let mut cases: Vec<(String, serde_json::Value)> = Vec::new();
    let mut hist = std::collections::BTreeMap::<String, usize>::new();
    let mut add = |tree: &Vec<TNode>, k: usize, kind: &str, sp: bool, run: TRun, hist: &mut std::collections::BTreeMap<String, usize>| {
        *hist.entry(format!("sched:{}", kind)).or_insert(0) += 1;
        *hist.entry(format!("workers:{}", k)).or_insert(0) += 1;
        *hist.entry(format!("outcome:{}", ["returned", "deadlock", "panic"][run.outcome])).or_insert(0) += 1;
        *hist.entry(format!("events:{:03}-", run.events.len() / 20 * 20)).or_insert(0) += 1;
        if run.events.iter().any(|e| matches!(e, Ev::Wake(_))) {
            *hist.entry(String::from("with_wakeups")).or_insert(0) += 1;
        }
        if run.events.iter().any(|e| matches!(e, Ev::PopBound(..))) {
            *hist.entry(String::from("with_bounding")).or_insert(0) += 1;
        }
        if run.events.iter().any(|e| matches!(e, Ev::EmptyWait(_))) {
            *hist.entry(String::from("with_waiting")).or_insert(0) += 1;
        }
        let meta = json!({"tree": tree.iter().map(j_tnode).collect::<Vec<_>>(), "k": k, "sched": kind, "spurious": sp,
                          "choices": run.log.choices, "failed_nodes": run.failed, "generated_by_node_fn": run.generated, "executions_of_node_fn": run.solved, "outcome": run.outcome, "result": run.result, "stats": run.stats,
                          "problems": run.problems, "events": run.events.len()});
        cases.push((g_case(tree, k, &run), meta));
    };
    if let Some(path) = replay {
        let v: serde_json::Value = serde_json::from_str(&std::fs::read_to_string(path).unwrap()).unwrap();
        let list = if v.is_array() { v.as_array().unwrap().clone() } else { vec![v] };
        for m in list {
            let tree = tree_from_json(&m["tree"]);
            let k = m["k"].as_u64().unwrap() as usize;
            let choices: Vec<usize> = m["choices"].as_array().unwrap().iter().map(|x| x.as_u64().unwrap() as usize).collect();
            let sp = m["spurious"].as_bool().unwrap_or(false);
            let run = run_tree(&tree, k, |log| replay_chooser(choices, log), sp);
            add(&tree, k, "replay", sp, run, &mut hist);
        }
    } else {
        for ti in 0..plan.trees {
            let n = 1 + (plan.max_nodes - 1) * (ti + 1) / plan.trees.max(1);
            let n = r.range((n.max(1) + 1) / 2, n.max(1));
            let npanic = if plan.panics { r.range(1, 2) } else { 0 };
            let consistent = plan.panics || !r.chance(1, 6);
            // every 8th tree (without failing nodes): a broad tree with 16 and more pending subproblems at once
            let broad = !plan.panics && ti % 8 == 7;
            // every 8th tree (without failing nodes): a tree of ties, with two or more workers
            let ties = !plan.panics && ti % 8 == 3;
            // one tree in 40 (without failing nodes): a huge flat tree with 30 .. 3000 subproblems pending at once (the first one above 1024)
            let huge = !plan.panics && ti % 20 == 11;
            let broad = broad || ties || huge;
            let tree = if huge {
                let sizes = [1100usize, 300, 2100, 40, 1500, 3000, 130];
                *hist.entry(String::from("huge_flat_tree")).or_insert(0) += 1;
                {
                    let extra = r.below(60);
                    gen_huge_tree(&mut r, sizes[(ti / 20) % sizes.len()] + extra)
                }
            } else if ties { gen_tie_tree(&mut r) } else if broad { gen_broad_tree(&mut r) } else { gen_tree(&mut r, n, npanic, consistent) };
            let consistent = consistent || broad;
            if ties {
                *hist.entry(String::from("tie_tree")).or_insert(0) += 1;
            }
            let n = tree.len();
            if broad && !ties {
                *hist.entry(String::from("broad_tree")).or_insert(0) += 1;
            }
            *hist.entry(if n > 99 { String::from("nodes:100+") } else { format!("nodes:{:02}", n) }).or_insert(0) += 1;
            if !consistent {
                *hist.entry(String::from("tree_not_bound_consistent")).or_insert(0) += 1;
            }
            for si in 0..(if huge { 3.min(plan.scheds_per_tree) } else { plan.scheds_per_tree }) {
                let k = if si == 0 { 1 } else if broad { r.range(2, plan.max_k.max(2)) } else { r.range(if plan.panics { 2 } else { 1 }, plan.max_k) };
                let sp = r.chance(1, 3);
                let seed = r.next();
                match si % 3 {
                    0 => {
                        let run = run_tree(&tree, k, |log| random_chooser(seed, log), sp);
                        add(&tree, k, "random", sp, run, &mut hist);
                    }
                    1 => {
                        let run = run_tree(&tree, k, |log| pct_chooser(seed, 3, log), sp);
                        add(&tree, k, "pct", sp, run, &mut hist);
                    }
                    _ => {
                        let run = run_tree(&tree, k, |log| replay_chooser(vec![], log), false);
                        add(&tree, k, "first", false, run, &mut hist);
                    }
                }
            }
            // exhaustive depth-first enumeration of the schedules of small trees with 2 workers (no spurious wake-ups)
            if plan.dfs_budget > 0 && n <= 4 {
                let mut prefix: Vec<usize> = vec![];
                let mut count = 0;
                loop {
                    let p = prefix.clone();
                    let run = run_tree(&tree, 2, |log| replay_chooser(p, log), false);
                    let next = dfs_next(&run.log);
                    add(&tree, 2, "dfs", false, run, &mut hist);
                    count += 1;
                    match next {
                        Some(p) if count < plan.dfs_budget => prefix = p,
                        Some(_) => {
                            *hist.entry(String::from("dfs_truncated")).or_insert(0) += 1;
                            break;
                        }
                        None => {
                            *hist.entry(String::from("dfs_exhausted")).or_insert(0) += 1;
                            break;
                        }
                    }
                }
            }
        }
    }
    let mut text: Vec<Vec<String>> = vec![Vec::new(); shards];
    let mut metas: Vec<Vec<serde_json::Value>> = vec![Vec::new(); shards];
    for (i, (t, m)) in cases.iter().enumerate() {
        text[i % shards].push(t.clone());
        metas[i % shards].push(m.clone());
    }
    for s in 0..shards {
        if text[s].is_empty() {
            continue;
        }
        let f = cases_file("Require Import CorrTree.\nOpen Scope nat_scope.\nOpen Scope list_scope.", "tree_case", "check_tree", &text[s]);
        std::fs::write(format!("{}/cases_tree_{:02}.v", outdir, s), f).unwrap();
        std::fs::write(format!("{}/cases_tree_{:02}.json", outdir, s), serde_json::to_string(&metas[s]).unwrap()).unwrap();
    }
    println!("{}", json!({"cases": cases.len(), "hist": hist}));
}
